package rules

import (
	"fmt"
	"go/constant"
	"go/token"
	"go/types"
	"math/big"
	"sort"
	"strings"

	"golang.org/x/tools/go/ssa"

	"verif/checker/ir"
)

func init() {
	register(&Check{
		ID: "C15", Title: "Binary codec: decode(encode(x)) = x and predicted size = written size",
		Pkgs:      []string{"xbinary", "container", "cast"},
		Run:       runC15,
		Technique: "static analysis: interval-partition interpretation of the size decision tree (exhaustive over its finite orderings), constant agreement between encoder and decoder, sibling agreement of the fixed-width codecs, provenance of the copied result (go/ssa)",
		Explanation: "S2: WritableUintSize touches its argument only through comparisons with constants; the induced partition of [0,2^64) maps [2^(7(k-1)),2^(7k)) to k for k=1..10 (checked at every interval end point, which is exhaustive for a comparison tree). " +
			"S3: MarshalUint/UnmarshalUint agree on one group width g=7: payload mask 2^g-1, continuation flag 2^g, shift g, continuation tests v>=2^g / b<2^g on the edges that emit/stop. " +
			"S4: for N in 16,32,64 Marshal/Unmarshal/ObjectsWriter use binary.BigEndian Put/UintN, are guarded by and return N/8, and the writer emits exactly its N/8-byte prefix. " +
			"S5: WriteUint/WriteBytes/MarshalBytes encode the length through the one varint encoder followed by the body; the size functions are WritableUintSize(len)+len; the scratch array holds the longest varint. " +
			"S6: on the newBuf edge the returned data originates in container.SliceCopy, whose result is a freshly made slice. " +
			"S7: every Marshal* store into the destination is dominated by a length guard (or the loop index idiom) and every copy into it has a destination of exactly len(src) elements, so a short buffer is an error and never a silent truncation. " +
			"S8: the varint decoder rejects only on exhausted input or on a counter guard that cannot fire while groups an encoder can produce are still to be read (threshold reasoning on the induction variables).",
		NotDecided: "the round-trip equality decode(encode(x))=x as a value statement; the shift/or arithmetic inside the loops.",
	})
	register(&Check{
		ID: "C16", Title: "Binary decoders are total: arbitrary bytes never panic or over-read",
		Pkgs:      []string{"xbinary", "container", "cast"},
		Run:       runC16,
		Technique: "static analysis: guard dominance for fixed-width reads, loop-index idiom, taint from wire lengths to arithmetic/slicing sinks with bound-by-guard sanitisation, exit classification (go/ssa)",
		Explanation: "R1: every binary.BigEndian.UintN(buf) and constant index buf[c] in an Unmarshal function is dominated by an edge implying len(buf)>=N/8 (resp. >c). " +
			"R2: a variable index buf[i] needs i=phi(0,i+1) and a dominating edge i!=len(buf) / i<len(buf). " +
			"R3: a wire length (result of a varint/fixed decoder) reaches arithmetic, slice bounds, indices or make sizes only where guard facts bound it: an unsigned comparison against a len(buf)-derived operand, or sign test plus signed bound after the conversion. " +
			"R4: every failure exit reports 0 consumed bytes (or the count of the failing callee, 0 under its own R4). " +
			"R5: a returned slice/string derives from a sub-slice of the input or from SliceCopy of one. " +
			"R6: the consumed count of a success exit is a guarded constant, loop index+1 under its guard, callee count, callee count + bounded length, or an external decoder's count under an n>0 guard.",
		NotDecided: "nothing material about panics on the idioms recognised; an unrecognised index/bound expression is reported as undecided (CHECK-ERROR), not guessed. 'Sub-range' is established as provenance, not arithmetic.",
	})
}

// ---------------------------------------------------------------------------
// shared helpers

// lenOf reports whether v is len(x) of a value resolving to slice s.
func isLenOf(v ssa.Value, s ssa.Value) bool {
	v = ir.Resolve(v)
	call, ok := v.(*ssa.Call)
	if !ok {
		return false
	}
	cc := builtinCall(call, "len")
	return cc != nil && same(cc.Args[0], s)
}

// lenLowerBound returns the largest K such that guard facts at block b imply len(s) >= K.
func lenLowerBound(b *ssa.BasicBlock, s ssa.Value) int64 {
	lb := int64(0)
	for _, f := range ir.Facts(b) {
		cm, ok := f.Cmp()
		if !ok {
			continue
		}
		op, x, y := cm.Op, cm.X, cm.Y
		if !isLenOf(x, s) {
			if !isLenOf(y, s) {
				continue
			}
			x, y = y, x
			op = ir.SwapOp(op)
		}
		k, isC := ir.ConstInt(y)
		if !isC {
			continue
		}
		var v int64 = -1
		switch op {
		case token.GEQ:
			v = k
		case token.GTR:
			v = k + 1
		case token.NEQ:
			if k == 0 {
				v = 1
			}
		case token.EQL:
			v = k
		}
		if v > lb {
			lb = v
		}
	}
	return lb
}

// inductionVar decodes v as phi(c0, v+step) and returns c0, step.
func inductionVar(v ssa.Value) (phi *ssa.Phi, c0, step int64, ok bool) {
	p, isPhi := v.(*ssa.Phi)
	if !isPhi || len(p.Edges) != 2 {
		return nil, 0, 0, false
	}
	var init, next ssa.Value
	for _, e := range p.Edges {
		if _, isC := ir.ConstInt(e); isC {
			init = e
		} else {
			next = e
		}
	}
	if init == nil || next == nil {
		return nil, 0, 0, false
	}
	c0, _ = ir.ConstInt(init)
	bo, isBin := next.(*ssa.BinOp)
	if !isBin || bo.Op != token.ADD || bo.X != ssa.Value(p) {
		return nil, 0, 0, false
	}
	st, isC := ir.ConstInt(bo.Y)
	if !isC {
		return nil, 0, 0, false
	}
	return p, c0, st, true
}

// indexGuarded reports whether facts at b bound induction index i below len(s): i != len, i < len.
func indexGuarded(b *ssa.BasicBlock, i ssa.Value, s ssa.Value) bool {
	return hasFactCmp(b, func(cm ir.Cmp) bool {
		op, x, y := cm.Op, cm.X, cm.Y
		if x != i {
			if y != i {
				return false
			}
			x, y = y, x
			op = ir.SwapOp(op)
		}
		if !isLenOf(y, s) {
			return false
		}
		return op == token.NEQ || op == token.LSS
	})
}

func xbinaryFuncs(c *Ctx, prefix string) []*ssa.Function {
	var res []*ssa.Function
	pk := c.P.SSAPkg("xbinary")
	if pk == nil {
		c.Fatalf("package xbinary not loaded")
	}
	var names []string
	for n, m := range pk.Members {
		if fn, ok := m.(*ssa.Function); ok && strings.HasPrefix(n, prefix) && fn.Object() != nil && fn.Object().Exported() {
			names = append(names, n)
		}
	}
	sort.Strings(names)
	for _, n := range names {
		res = append(res, pk.Func(n))
	}
	return res
}

// bufParam returns the []byte parameter that is the coding buffer: for Unmarshal* the first
// parameter, for Marshal* the parameter named by position (last []byte parameter).
func bufParam(fn *ssa.Function, last bool) *ssa.Parameter {
	var res *ssa.Parameter
	for _, p := range fn.Params {
		if sl, ok := p.Type().Underlying().(*types.Slice); ok && types.Identical(sl.Elem(), types.Typ[types.Byte]) {
			if !last {
				return p
			}
			res = p
		}
	}
	return res
}

// sliceRoot follows Slice instructions to their base value.
func sliceRoot(v ssa.Value) ssa.Value {
	for {
		v = ir.Resolve(v)
		if s, ok := v.(*ssa.Slice); ok {
			v = s.X
			continue
		}
		return v
	}
}

// fixedWidthAccess checks R1/S7 for one function: BigEndian.(Put)UintN(buf) and buf[const].
func (c *Ctx) fixedWidthAccess(rule string, fn *ssa.Function, buf ssa.Value) {
	ir.Instrs(fn, func(in ssa.Instruction) {
		switch x := in.(type) {
		case *ssa.Call:
			name := ir.CalleeFullName(x)
			var need int64
			switch {
			case strings.HasSuffix(name, "ndian).Uint16"), strings.HasSuffix(name, "ndian).PutUint16"):
				need = 2
			case strings.HasSuffix(name, "ndian).Uint32"), strings.HasSuffix(name, "ndian).PutUint32"):
				need = 4
			case strings.HasSuffix(name, "ndian).Uint64"), strings.HasSuffix(name, "ndian).PutUint64"):
				need = 8
			default:
				return
			}
			if !strings.HasPrefix(name, "(encoding/binary.") {
				return
			}
			arg := ir.MethodArgs(x)[0]
			if !same(arg, buf) {
				// a sub-slice of constant length, e.g. ow.buf[:2] of an array: the slice expression is its own guard
				if s, ok := ir.Resolve(arg).(*ssa.Slice); ok && s.High != nil {
					if hi, isC := ir.ConstInt(s.High); isC && s.Low == nil && hi >= need {
						c.Decide(rule, fn, fmt.Sprintf("%d-byte access on fixed prefix", need), x, true, "")
						return
					}
				}
				c.Undecided(rule, fn, fmt.Sprintf("%d-byte access", need), x, "the accessed slice is neither the buffer parameter nor a constant prefix")
				return
			}
			lb := lenLowerBound(x.Block(), buf)
			c.Decide(rule, fn, fmt.Sprintf("%d-byte access guarded by len>=%d", need, need), x, lb >= need,
				fmt.Sprintf("the %d-byte access is only guarded by len(buf) >= %d: a shorter input panics", need, lb))
		case *ssa.IndexAddr:
			if !same(x.X, buf) {
				return
			}
			if k, isC := ir.ConstInt(x.Index); isC {
				lb := lenLowerBound(x.Block(), buf)
				c.Decide(rule, fn, fmt.Sprintf("buf[%d] guarded", k), x, lb > k, fmt.Sprintf("buf[%d] is only guarded by len(buf) >= %d", k, lb))
			}
		}
	})
}

// loopIndexAccess checks R2 for one function.
func (c *Ctx) loopIndexAccess(rule string, fn *ssa.Function, buf ssa.Value) {
	ir.Instrs(fn, func(in ssa.Instruction) {
		x, ok := in.(*ssa.IndexAddr)
		if !ok || !same(x.X, buf) {
			return
		}
		if _, isC := ir.ConstInt(x.Index); isC {
			return
		}
		_, c0, step, isInd := inductionVar(x.Index)
		if !isInd || c0 != 0 || step != 1 {
			c.Undecided(rule, fn, "buf[i]", x, "the index is not the loop idiom i=phi(0,i+1)")
			return
		}
		c.Decide(rule, fn, "buf[i] under i<len(buf)", x, indexGuarded(x.Block(), x.Index, buf), "the indexed access is not dominated by the test of the index against len(buf)")
	})
}

// ---------------------------------------------------------------------------
// C16

func runC16(c *Ctx) {
	decoders := xbinaryFuncs(c, "Unmarshal")
	if len(decoders) < 7 {
		c.Fatalf("role decoders: expected the 7 exported Unmarshal functions of xbinary, found %d", len(decoders))
	}
	isDecoder := map[*ssa.Function]bool{}
	for _, fn := range decoders {
		isDecoder[fn] = true
		c.Saw(fn)
	}
	for _, fn := range decoders {
		buf := bufParam(fn, false)
		if buf == nil {
			c.Fatalf("decoder %s has no []byte parameter", fn.Name())
		}
		c.fixedWidthAccess("C16.R1", fn, buf)
		c.loopIndexAccess("C16.R2", fn, buf)
		c.wireLengthTaint(fn, buf, isDecoder)
		c.decoderExits(fn, buf, isDecoder)
	}
	// helpers of other repository packages the decoders call (zero-copy casts, copies): the same guard rule
	seenHelper := map[*ssa.Function]bool{}
	for _, fn := range decoders {
		for _, call := range ir.Calls(fn) {
			cal := ir.StaticCallee(call)
			if cal == nil || len(cal.Blocks) == 0 || isDecoder[cal] || seenHelper[cal] || cal.Pkg == nil || !strings.HasPrefix(cal.Pkg.Pkg.Path(), ir.Module+"/") {
				continue
			}
			if cal.Pkg == c.P.SSAPkg("xbinary") {
				continue
			}
			seenHelper[cal] = true
			c.Saw(cal)
			for _, prm := range cal.Params {
				if _, isSlice := prm.Type().Underlying().(*types.Slice); isSlice {
					c.fixedWidthAccess("C16.R1", cal, prm)
				}
			}
			// a helper without indexed access is fine
			c.Decide("C16.R1", cal, "helper called with decoded data analysed", nil, true, "")
		}
	}
	c.R.Floor("C16.R1", 4)
	c.R.Floor("C16.R2", 1)
	c.R.Floor("C16.R3", 1)
	c.R.Floor("C16.R4", 8)
	c.R.Floor("C16.R5", 2)
	c.R.Floor("C16.R6", 7)
}

// wireLengthTaint is C16.R3.
func (c *Ctx) wireLengthTaint(fn *ssa.Function, buf ssa.Value, isDecoder map[*ssa.Function]bool) {
	// sources: value results (index >=1, integer typed) of calls to decoders; integer results of external
	// decoders (binary.Uvarint value #0)
	tainted := map[ssa.Value]bool{}
	counts := map[ssa.Value]bool{} // consumed counts of callees (bounded by the callee's own R6)
	ir.Instrs(fn, func(in ssa.Instruction) {
		ex, ok := in.(*ssa.Extract)
		if !ok {
			return
		}
		call, ok := ex.Tuple.(*ssa.Call)
		if !ok {
			return
		}
		cal := ir.StaticCallee(call)
		bt, isBasic := ex.Type().Underlying().(*types.Basic)
		if !isBasic || bt.Info()&types.IsInteger == 0 {
			return
		}
		switch {
		case cal != nil && isDecoder[cal]:
			if ex.Index == 0 {
				counts[ex] = true
			} else {
				tainted[ex] = true
			}
		case strings.HasPrefix(ir.CalleeFullName(call), "encoding/binary."):
			if ex.Index == 0 {
				tainted[ex] = true
			}
		}
	})
	if len(tainted) == 0 {
		return
	}
	// propagate through conversions and phis (fixed point)
	for changed := true; changed; {
		changed = false
		ir.Instrs(fn, func(in ssa.Instruction) {
			v, ok := in.(ssa.Value)
			if !ok || tainted[v] {
				return
			}
			switch x := in.(type) {
			case *ssa.Convert:
				if tainted[x.X] {
					tainted[v] = true
					changed = true
				}
			case *ssa.ChangeType:
				if tainted[x.X] {
					tainted[v] = true
					changed = true
				}
			case *ssa.Phi:
				for _, e := range x.Edges {
					if tainted[e] {
						tainted[v] = true
						changed = true
					}
				}
			case *ssa.BinOp:
				switch x.Op {
				case token.ADD, token.SUB, token.MUL, token.SHL, token.QUO, token.REM, token.AND, token.OR:
					if tainted[x.X] || tainted[x.Y] {
						tainted[v] = true
						changed = true
					}
				}
			}
		})
	}
	// the unsigned ancestor of a converted value
	root := func(v ssa.Value) ssa.Value {
		for {
			if cv, ok := v.(*ssa.Convert); ok {
				v = cv.X
				continue
			}
			return v
		}
	}
	lenDerived := func(v ssa.Value) bool {
		// the backward slice contains len(buf) and no tainted value
		seen := map[ssa.Value]bool{}
		hasLen, hasTaint := false, false
		var rec func(v ssa.Value)
		rec = func(v ssa.Value) {
			if v == nil || seen[v] {
				return
			}
			seen[v] = true
			if tainted[v] {
				hasTaint = true
				return
			}
			if isLenOf(v, buf) {
				hasLen = true
				return
			}
			switch x := v.(type) {
			case *ssa.BinOp:
				rec(x.X)
				rec(x.Y)
			case *ssa.Convert:
				rec(x.X)
			case *ssa.Phi:
				for _, e := range x.Edges {
					rec(e)
				}
			}
		}
		rec(v)
		return hasLen && !hasTaint
	}
	isUnsigned := func(t types.Type) bool {
		b, ok := t.Underlying().(*types.Basic)
		return ok && b.Info()&types.IsUnsigned != 0
	}
	bounded := func(v ssa.Value, at *ssa.BasicBlock) bool {
		u := root(v)
		upper, nonNeg := false, isUnsigned(v.Type()) && v == u
		for _, f := range ir.Facts(at) {
			cm, ok := f.Cmp()
			if !ok {
				continue
			}
			op, x, y := cm.Op, cm.X, cm.Y
			// normalise so that x is the tainted side
			match := func(t ssa.Value) bool { return t == v || t == u }
			if !match(x) {
				if !match(y) {
					continue
				}
				x, y = y, x
				op = ir.SwapOp(op)
			}
			if x == u && isUnsigned(u.Type()) && isUnsigned(y.Type()) {
				// unsigned comparison on the original wire value
				if (op == token.LEQ || op == token.LSS || op == token.EQL) && lenDerived(y) {
					upper, nonNeg = true, true
				}
				continue
			}
			if x == v && !isUnsigned(v.Type()) {
				if (op == token.LEQ || op == token.LSS) && lenDerived(y) {
					upper = true
				}
				if k, isC := ir.ConstInt(y); isC {
					if (op == token.GEQ && k >= 0) || (op == token.GTR && k >= -1) {
						nonNeg = true
					}
				}
			}
		}
		return upper && nonNeg
	}
	check := func(in ssa.Instruction, what string, v ssa.Value) {
		if v == nil || !tainted[v] {
			return
		}
		// a value that is itself the result of arithmetic on tainted operands was reported at that arithmetic
		if bo, ok := v.(*ssa.BinOp); ok && (tainted[bo.X] || tainted[bo.Y]) {
			return
		}
		c.Decide("C16.R3", fn, what+" on wire length", in, bounded(v, in.Block()),
			"a length taken from the input reaches "+what+" without a guard that bounds it against the remaining input (unsigned compare with a len(buf)-derived operand, or sign test + signed bound): a crafted prefix overflows/slices out of range")
	}
	ir.Instrs(fn, func(in ssa.Instruction) {
		switch x := in.(type) {
		case *ssa.BinOp:
			switch x.Op {
			case token.ADD, token.SUB, token.MUL, token.SHL:
				check(in, "arithmetic", x.X)
				check(in, "arithmetic", x.Y)
			}
		case *ssa.Slice:
			check(in, "slice bound", x.Low)
			check(in, "slice bound", x.High)
			check(in, "slice bound", x.Max)
			c.sliceRemaining(fn, x, tainted, buf)
			// a bound that is arithmetic on tainted values: its operands were checked above
		case *ssa.IndexAddr:
			check(in, "index", x.Index)
		case *ssa.Index:
			check(in, "index", x.Index)
		case *ssa.MakeSlice:
			check(in, "make size", x.Len)
			check(in, "make size", x.Cap)
		}
	})
}

// decoderExits is C16.R4, R5, R6.
func (c *Ctx) decoderExits(fn *ssa.Function, buf ssa.Value, isDecoder map[*ssa.Function]bool) {
	errIdx := ir.ErrResultIndex(fn)
	if errIdx < 0 {
		c.Fatalf("decoder %s has no error result", fn.Name())
	}
	calleeOf := func(v ssa.Value, idx int) *ssa.Call {
		ex, ok := ir.Resolve(v).(*ssa.Extract)
		if !ok || ex.Index != idx {
			return nil
		}
		call, _ := ex.Tuple.(*ssa.Call)
		return call
	}
	for _, ret := range ir.Returns(fn) {
		errV := ir.ResultValue(ret, errIdx)
		cnt := ir.ResultValue(ret, 0)
		cls := ir.ClassifyErr(errV, ret.Block())
		if cls == ir.ErrUnknown {
			// an error produced by a repository helper that always returns non-nil (noBufErr) counts as failure
			if call, ok := ir.Resolve(errV).(*ssa.Call); ok {
				if cal := ir.StaticCallee(call); cal != nil && alwaysNonNilError(cal) {
					cls = ir.ErrNonNil
				}
			}
		}
		switch cls {
		case ir.ErrNonNil:
			ok := false
			if k, isC := ir.ConstInt(cnt); isC && k == 0 {
				ok = true
			}
			if call := calleeOf(cnt, 0); call != nil && isDecoder[ir.StaticCallee(call)] {
				if ec := calleeOf(errV, ir.ErrResultIndex(ir.StaticCallee(call))); ec == call {
					ok = true
				}
			}
			c.Decide("C16.R4", fn, "failure exit reports 0 consumed", ret, ok, "a failing decoder reports a non-zero consumed length")
		case ir.ErrNil, ir.ErrUnknown:
			if cls == ir.ErrUnknown {
				c.Undecided("C16.R4", fn, "exit class", ret, "cannot classify the returned error as nil or non-nil")
				continue
			}
			// R6 success count
			c.successCount(fn, ret, cnt, buf, isDecoder)
			// R5 provenance of slice/string results
			for i := 1; i < errIdx; i++ {
				rv := ir.ResultValue(ret, i)
				switch rv.Type().Underlying().(type) {
				case *types.Slice:
					ok, why := c.fromInput(rv, buf, isDecoder, 0)
					c.Decide("C16.R5", fn, "result derives from the input", ret, ok, why)
				case *types.Basic:
					if b := rv.Type().Underlying().(*types.Basic); b.Kind() == types.String {
						ok, why := c.fromInput(rv, buf, isDecoder, 0)
						c.Decide("C16.R5", fn, "result derives from the input", ret, ok, why)
					}
				}
			}
		}
	}
}

// alwaysNonNilError reports whether every return of fn yields a fresh error (fmt.Errorf/errors.New).
func alwaysNonNilError(fn *ssa.Function) bool {
	if len(fn.Blocks) == 0 {
		return false
	}
	idx := ir.ErrResultIndex(fn)
	if idx < 0 {
		return false
	}
	rets := ir.Returns(fn)
	if len(rets) == 0 {
		return false
	}
	for _, r := range rets {
		if ir.ClassifyErr(ir.ResultValue(r, idx), r.Block()) != ir.ErrNonNil {
			return false
		}
	}
	return true
}

func (c *Ctx) fromInput(v ssa.Value, buf ssa.Value, isDecoder map[*ssa.Function]bool, depth int) (bool, string) {
	if depth > 6 {
		return false, "provenance too deep"
	}
	for _, o := range ir.Origins(v) {
		switch x := o.(type) {
		case *ssa.Slice:
			if !same(sliceRoot(x), buf) {
				return false, "the returned slice is cut from something else than the input buffer"
			}
		case *ssa.Call:
			name := ir.CalleeFullName(x)
			switch {
			case strings.HasSuffix(name, "container.SliceCopy"), strings.HasSuffix(name, "cast.ByteArrayToString"), strings.HasSuffix(name, "cast.StringToByteArray"):
				if ok, why := c.fromInput(x.Call.Args[0], buf, isDecoder, depth+1); !ok {
					return false, why
				}
			default:
				return false, "the returned data comes from " + name
			}
		case *ssa.Extract:
			call, ok := x.Tuple.(*ssa.Call)
			if !ok || !isDecoder[ir.StaticCallee(call)] || !same(call.Call.Args[0], buf) {
				return false, "the returned data is not produced by a decoder applied to the input"
			}
		case *ssa.Const:
			// nil / "" on degenerate paths
		case *ssa.Convert:
			if ok, why := c.fromInput(x.X, buf, isDecoder, depth+1); !ok {
				return false, why
			}
		default:
			return false, "unrecognised origin " + o.String()
		}
	}
	return true, ""
}

// successCount is C16.R6.
func (c *Ctx) successCount(fn *ssa.Function, ret *ssa.Return, cnt ssa.Value, buf ssa.Value, isDecoder map[*ssa.Function]bool) {
	cnt = ir.Resolve(cnt)
	rule, what := "C16.R6", "success exit consumed count within input"
	if k, isC := ir.ConstInt(cnt); isC {
		lb := lenLowerBound(ret.Block(), buf)
		c.Decide(rule, fn, what, ret, k >= 0 && lb >= k, fmt.Sprintf("the constant count %d is not covered by the length guard (len(buf) >= %d)", k, lb))
		return
	}
	if ex, ok := cnt.(*ssa.Extract); ok && ex.Index == 0 {
		if call, ok := ex.Tuple.(*ssa.Call); ok {
			if isDecoder[ir.StaticCallee(call)] && same(call.Call.Args[0], buf) {
				c.Decide(rule, fn, what, ret, true, "")
				return
			}
		}
	}
	if ex, ok := cnt.(*ssa.Extract); ok {
		if call, ok := ex.Tuple.(*ssa.Call); ok && strings.HasPrefix(ir.CalleeFullName(call), "encoding/binary.") && ex.Index == 1 {
			pos := hasFactCmp(ret.Block(), func(cm ir.Cmp) bool {
				op, x, y := cm.Op, cm.X, cm.Y
				if x != ssa.Value(ex) {
					if y != ssa.Value(ex) {
						return false
					}
					x, y = y, x
					op = ir.SwapOp(op)
				}
				k, isC := ir.ConstInt(y)
				return isC && ((op == token.GTR && k >= 0) || (op == token.GEQ && k >= 1))
			})
			c.Decide(rule, fn, what, ret, pos, "the count returned by "+ir.CalleeFullName(call)+" can be negative (overflow) or zero and is passed on as a successful consumed length")
			return
		}
	}
	if bo, ok := cnt.(*ssa.BinOp); ok && bo.Op == token.ADD {
		// loop index + 1
		if k, isC := ir.ConstInt(bo.Y); isC && k == 1 {
			if _, c0, step, isInd := inductionVar(bo.X); isInd && c0 == 0 && step == 1 {
				c.Decide(rule, fn, what, ret, indexGuarded(ret.Block(), bo.X, buf), "index+1 is returned on a path where the index is not tested against len(buf)")
				return
			}
		}
		// callee count + bounded wire length: the same sum must be (or equal) the high bound of the slice cut from buf
		okSum := false
		ir.Instrs(fn, func(in ssa.Instruction) {
			if s, ok := in.(*ssa.Slice); ok && same(s.X, buf) && s.High != nil {
				if hb, ok := ir.Resolve(s.High).(*ssa.BinOp); ok && hb.Op == token.ADD {
					if (hb.X == bo.X && hb.Y == bo.Y) || (hb.X == bo.Y && hb.Y == bo.X) {
						if ir.Dominates(s, ret) {
							okSum = true
						}
					}
				}
				if ir.Resolve(s.High) == ssa.Value(bo) && ir.Dominates(s, ret) {
					okSum = true
				}
			}
		})
		if okSum {
			// the operands are bounded by R3 at the slice; the slice expression's own run-time check cannot fire there
			c.Decide(rule, fn, what, ret, true, "")
			return
		}
	}
	c.Undecided(rule, fn, what, ret, "unrecognised form of the consumed count: "+cnt.String())
}

// ---------------------------------------------------------------------------
// C15

func runC15(c *Ctx) {
	c.sizeTree()
	c.groupConstants()
	c.fixedWidthSiblings()
	c.oneEncoder()
	c.independentCopy()
	// S7 short buffer is an error
	for _, fn := range xbinaryFuncs(c, "Marshal") {
		buf := bufParam(fn, true)
		if buf == nil {
			continue
		}
		c.Saw(fn)
		c.fixedWidthAccess("C15.S7", fn, buf)
		c.loopIndexAccess("C15.S7", fn, buf)
	}
	// copies inside the codec: the destination is sliced to exactly len(src), so a short buffer fails (bounds
	// check / explicit guard) instead of truncating the value silently
	for _, fn := range c.P.FuncsOf("xbinary") {
		ir.Instrs(fn, func(in ssa.Instruction) {
			cc := builtinCall(in, "copy")
			if cc == nil {
				return
			}
			dst, src := ir.Resolve(cc.Args[0]), cc.Args[1]
			s, ok := dst.(*ssa.Slice)
			exact := false
			if ok && s.High != nil {
				// dst = x[lo:hi] with hi-lo == len(src): either lo == nil and hi == len(src), or hi == lo+len(src)
				if s.Low == nil && isLenOf(s.High, src) {
					exact = true
				}
				if s.Low != nil {
					if hb, ok := ir.Resolve(s.High).(*ssa.BinOp); ok && hb.Op == token.ADD {
						if (hb.X == s.Low && isLenOf(hb.Y, src)) || (hb.Y == s.Low && isLenOf(hb.X, src)) {
							exact = true
						}
					}
				}
			}
			c.Saw(fn)
			c.Decide("C15.S7", fn, "copy destination has exactly len(src) elements", in, exact,
				"the destination of copy() is not sliced to exactly len(src): with a short (or just too small) buffer the body is truncated silently instead of failing, and the bytes written no longer match the predicted size")
		})
	}
	c.R.Floor("C15.S7", 6)
	c.decoderRejections()
}

// sizeTree is C15.S2.
func (c *Ctx) sizeTree() {
	fn := c.RequireFn(c.P.Func("xbinary", "WritableUintSize"), "xbinary.WritableUintSize")
	if len(fn.Params) != 1 {
		c.Fatalf("WritableUintSize: unexpected signature")
	}
	v := fn.Params[0]
	// shape: only If(cmp(v,const)), Return const, Jump, Phi of constants
	var thresholds []*big.Int
	shapeOK := true
	why := ""
	ir.Instrs(fn, func(in ssa.Instruction) {
		switch x := in.(type) {
		case *ssa.If, *ssa.Jump, *ssa.Return, *ssa.Phi, *ssa.DebugRef:
		case *ssa.BinOp:
			cm, ok := ir.AsCmp(x)
			if !ok {
				shapeOK, why = false, "non-comparison operation "+x.String()
				return
			}
			var k constant.Value
			switch {
			case cm.X == ssa.Value(v):
				k = ir.ConstVal(cm.Y)
			case cm.Y == ssa.Value(v):
				k = ir.ConstVal(cm.X)
			}
			if k == nil {
				shapeOK, why = false, "comparison not between the argument and a constant: "+x.String()
				return
			}
			if bi, ok := constant.Val(constant.ToInt(k)).(*big.Int); ok {
				thresholds = append(thresholds, bi)
			} else if i64, ok := constant.Val(constant.ToInt(k)).(int64); ok {
				thresholds = append(thresholds, big.NewInt(i64))
			}
		default:
			shapeOK, why = false, "unexpected instruction "+in.String()
		}
	})
	if !shapeOK {
		// not a comparison tree: fall back to an interval analysis of the result. It cannot prove agreement with the
		// encoder, but a result interval that reaches below 1 or above 10 is a definite disagreement.
		lo, hi, ok := resultInterval(fn)
		if ok && (lo < 1 || hi > 10) {
			c.Decide("C15.S2", fn, "size function result within [1,10]", nil, false,
				fmt.Sprintf("the size function can return %d..%d: the varint encoder always writes between 1 and 10 bytes (e.g. 1 byte for the value 0)", lo, hi))
			return
		}
		c.Undecided("C15.S2", fn, "size decision tree", nil, "the body is not a comparison tree over the argument: "+why)
		return
	}
	// candidate points: all interval end points
	max64 := new(big.Int).Sub(new(big.Int).Lsh(big.NewInt(1), 64), big.NewInt(1))
	pts := map[string]*big.Int{"0": big.NewInt(0), max64.String(): max64}
	add := func(b *big.Int) {
		for _, d := range []int64{-1, 0, 1} {
			p := new(big.Int).Add(b, big.NewInt(d))
			if p.Sign() >= 0 && p.Cmp(max64) <= 0 {
				pts[p.String()] = p
			}
		}
	}
	for _, t := range thresholds {
		add(t)
	}
	for k := uint(1); k <= 9; k++ {
		add(new(big.Int).Lsh(big.NewInt(1), 7*k))
	}
	var keys []*big.Int
	for _, p := range pts {
		keys = append(keys, p)
	}
	sort.Slice(keys, func(i, j int) bool { return keys[i].Cmp(keys[j]) < 0 })
	bad := ""
	n := 0
	for _, p := range keys {
		got, ok := evalSizeTree(fn, v, p)
		if !ok {
			c.Undecided("C15.S2", fn, "size decision tree", nil, "cannot evaluate the tree at "+p.String())
			return
		}
		want := int64((p.BitLen() + 6) / 7)
		if want == 0 {
			want = 1
		}
		n++
		if got != want && bad == "" {
			bad = fmt.Sprintf("WritableUintSize(%s) = %d, but the varint encoder emits %d bytes (bit length %d)", p.String(), got, want, p.BitLen())
		}
	}
	c.Decide("C15.S2", fn, fmt.Sprintf("partition of [0,2^64) by %d thresholds checked at %d end points", len(thresholds), n), nil, bad == "", bad)
}

// evalSizeTree interprets the comparison tree for a concrete argument.
func evalSizeTree(fn *ssa.Function, param *ssa.Parameter, x *big.Int) (int64, bool) {
	b := fn.Blocks[0]
	var prev *ssa.BasicBlock
	for steps := 0; steps < 1000; steps++ {
		last := b.Instrs[len(b.Instrs)-1]
		switch t := last.(type) {
		case *ssa.Return:
			rv := t.Results[0]
			if ph, ok := rv.(*ssa.Phi); ok && ph.Block() == b && prev != nil {
				for i, p := range b.Preds {
					if p == prev {
						rv = ph.Edges[i]
					}
				}
			}
			k, ok := ir.ConstInt(rv)
			return k, ok
		case *ssa.Jump:
			prev, b = b, b.Succs[0]
		case *ssa.If:
			cm, ok := ir.AsCmp(t.Cond)
			if !ok {
				return 0, false
			}
			val := func(v ssa.Value) *big.Int {
				if v == ssa.Value(param) {
					return x
				}
				k := ir.ConstVal(v)
				if k == nil {
					return nil
				}
				switch bv := constant.Val(constant.ToInt(k)).(type) {
				case *big.Int:
					return bv
				case int64:
					return big.NewInt(bv)
				}
				return nil
			}
			l, r := val(cm.X), val(cm.Y)
			if l == nil || r == nil {
				return 0, false
			}
			cmp := l.Cmp(r)
			var res bool
			switch cm.Op {
			case token.EQL:
				res = cmp == 0
			case token.NEQ:
				res = cmp != 0
			case token.LSS:
				res = cmp < 0
			case token.LEQ:
				res = cmp <= 0
			case token.GTR:
				res = cmp > 0
			case token.GEQ:
				res = cmp >= 0
			}
			prev = b
			if res {
				b = b.Succs[0]
			} else {
				b = b.Succs[1]
			}
		default:
			return 0, false
		}
	}
	return 0, false
}

// groupConstants is C15.S3.
func (c *Ctx) groupConstants() {
	enc := c.RequireFn(c.P.Func("xbinary", "MarshalUint"), "xbinary.MarshalUint")
	dec := c.RequireFn(c.P.Func("xbinary", "UnmarshalUint"), "xbinary.UnmarshalUint")
	const g = 7
	mask, flag := int64(1<<g-1), int64(1<<g)
	type found struct {
		name string
		in   ssa.Instruction
		got  int64
		want int64
	}
	var fs []found
	constOf := func(b *ssa.BinOp) (int64, bool) {
		if k, ok := ir.ConstInt(b.Y); ok {
			return k, true
		}
		return ir.ConstInt(b.X)
	}
	scan := func(fn *ssa.Function, side string) {
		ir.Instrs(fn, func(in ssa.Instruction) {
			b, ok := in.(*ssa.BinOp)
			if !ok {
				return
			}
			k, isC := constOf(b)
			switch b.Op {
			case token.AND:
				if isC {
					fs = append(fs, found{side + " payload mask", in, k, mask})
				}
			case token.OR:
				if isC {
					fs = append(fs, found{side + " continuation flag", in, k, flag})
				}
			case token.SHR:
				if isC {
					fs = append(fs, found{side + " group shift", in, k, g})
				}
			case token.ADD:
				// the shift accumulator of the decoder: an unsigned induction variable used as a shift count
				if isC {
					if p, ok := b.X.(*ssa.Phi); ok && usedAsShiftCount(p) {
						fs = append(fs, found{side + " shift step", in, k, g})
					}
				}
			case token.GTR, token.LEQ, token.LSS, token.GEQ:
				if !isC {
					return
				}
				if _, isLen := ir.Resolve(b.Y).(*ssa.Call); isLen {
					return
				}
				if _, isParamOrPhi := b.X.(*ssa.Phi); !isParamOrPhi {
					if _, isLoad := b.X.(*ssa.UnOp); !isLoad {
						return
					}
				}
				// continuation test on the value (encoder) or on the byte (decoder): normalise to "continue iff x >= T"
				var T int64
				switch b.Op {
				case token.GTR:
					T = k + 1
				case token.GEQ:
					T = k
				case token.LEQ:
					T = k + 1
				case token.LSS:
					T = k
				}
				if bt, ok := b.X.Type().Underlying().(*types.Basic); ok && bt.Info()&types.IsUnsigned != 0 {
					fs = append(fs, found{side + " continuation threshold", in, T, flag})
				}
			}
		})
	}
	scan(enc, "encoder")
	scan(dec, "decoder")
	seen := map[string]bool{}
	for _, f := range fs {
		seen[f.name] = true
		fn := enc
		if strings.HasPrefix(f.name, "decoder") {
			fn = dec
		}
		c.Decide("C15.S3", fn, f.name, f.in, f.got == f.want, fmt.Sprintf("%s is %d, the 7-bit group coding needs %d: encoder and decoder (and the size table) disagree", f.name, f.got, f.want))
	}
	for _, need := range []string{"encoder payload mask", "encoder continuation flag", "encoder group shift", "encoder continuation threshold",
		"decoder payload mask", "decoder shift step", "decoder continuation threshold"} {
		if !seen[need] {
			c.Decide("C15.S3", nil, need, nil, false, "the "+need+" was not found: the varint coder changed shape")
		}
	}
	// polarity: the flag is OR-ed in exactly on the continue edge; the decoder returns on the stop edge
	ir.Instrs(enc, func(in ssa.Instruction) {
		b, ok := in.(*ssa.BinOp)
		if !ok || b.Op != token.OR {
			return
		}
		ok = hasFactCmp(b.Block(), func(cm ir.Cmp) bool {
			k, isC := ir.ConstInt(cm.Y)
			return isC && ((cm.Op == token.GTR && k == mask) || (cm.Op == token.GEQ && k == flag))
		})
		c.Decide("C15.S3", enc, "flag set iff more groups follow", in, ok, "the continuation flag is not set on the v >= 128 edge")
	})
	for _, ret := range ir.Returns(dec) {
		if ir.ClassifyErr(ir.ResultValue(ret, 2), ret.Block()) != ir.ErrNil {
			continue
		}
		ok := hasFactCmp(ret.Block(), func(cm ir.Cmp) bool {
			k, isC := ir.ConstInt(cm.Y)
			return isC && ((cm.Op == token.LEQ && k == mask) || (cm.Op == token.LSS && k == flag))
		})
		c.Decide("C15.S3", dec, "decoder stops iff flag clear", ret, ok, "the decoder's success exit is not on the b < 128 edge")
	}
	c.R.Floor("C15.S3", 9)
}

func usedAsShiftCount(p *ssa.Phi) bool {
	if p.Referrers() == nil {
		return false
	}
	for _, r := range *p.Referrers() {
		if b, ok := r.(*ssa.BinOp); ok && (b.Op == token.SHL || b.Op == token.SHR) && b.Y == ssa.Value(p) {
			return true
		}
	}
	return false
}

// decoderRejections is C15.S8.
func (c *Ctx) decoderRejections() {
	dec := c.RequireFn(c.P.Func("xbinary", "UnmarshalUint"), "xbinary.UnmarshalUint")
	buf := bufParam(dec, false)
	// number of groups an encoder can produce for the decoder's result type
	bits := int64(64)
	if rs := dec.Signature.Results(); rs.Len() >= 2 {
		if sz := c.P.Pkgs[0].TypesSizes; sz != nil {
			bits = sz.Sizeof(rs.At(1).Type()) * 8
		}
	}
	groups := (bits + 6) / 7
	n := 0
	for _, ret := range ir.Returns(dec) {
		if ir.ClassifyErr(ir.ResultValue(ret, 2), ret.Block()) == ir.ErrNil {
			continue
		}
		n++
		// exhausted input?
		exhausted := hasFactCmp(ret.Block(), func(cm ir.Cmp) bool {
			op, x, y := cm.Op, cm.X, cm.Y
			if isLenOf(x, buf) {
				x, y = y, x
				op = ir.SwapOp(op)
			}
			if !isLenOf(y, buf) {
				if k, isC := ir.ConstInt(y); isC && k == 0 && isLenOf(x, buf) {
					return op == token.EQL
				}
				return false
			}
			_, _, _, isInd := inductionVar(x)
			return isInd && (op == token.EQL || op == token.GEQ)
		})
		if exhausted {
			c.Decide("C15.S8", dec, "rejection on exhausted input", ret, true, "")
			continue
		}
		// a counter guard: find the comparison fact of an induction variable (or var+step) against a constant
		decided := false
		for _, f := range ir.Facts(ret.Block()) {
			cm, ok := f.Cmp()
			if !ok {
				continue
			}
			op, x, y := cm.Op, cm.X, cm.Y
			if _, isC := ir.ConstInt(y); !isC {
				x, y = y, x
				op = ir.SwapOp(op)
			}
			k, isC := ir.ConstInt(y)
			if !isC {
				continue
			}
			// value of x at iteration i (0-based group index): phi -> c0+i*step ; phi+step -> c0+(i+1)*step
			var c0, step, off int64
			if _, a, s, ok := inductionVar(x); ok {
				c0, step = a, s
			} else if bo, ok := x.(*ssa.BinOp); ok && bo.Op == token.ADD {
				if _, a, s, ok := inductionVar(bo.X); ok {
					if d, isC := ir.ConstInt(bo.Y); isC {
						c0, step, off = a, s, d
					}
				}
			}
			if step == 0 {
				continue
			}
			// is the guard evaluated after the continuation test of group i (then groups 0..G-2 must pass)
			// or before reading group i (then 0..G-1 must pass)?
			afterCont := hasFactCmp(ret.Block(), func(c2 ir.Cmp) bool {
				kk, isC := ir.ConstInt(c2.Y)
				if !isC {
					return false
				}
				_, isLoad := c2.X.(*ssa.UnOp)
				return isLoad && ((c2.Op == token.GTR && kk == 127) || (c2.Op == token.GEQ && kk == 128))
			})
			lastIter := groups - 1
			if afterCont {
				lastIter = groups - 2
			}
			fires := int64(-1)
			for i := int64(0); i <= lastIter; i++ {
				val := c0 + i*step + off
				var hit bool
				switch op {
				case token.GEQ:
					hit = val >= k
				case token.GTR:
					hit = val > k
				case token.EQL:
					hit = val == k
				case token.LSS:
					hit = val < k
				case token.LEQ:
					hit = val <= k
				case token.NEQ:
					hit = val != k
				}
				if hit {
					fires = i
					break
				}
			}
			decided = true
			c.Decide("C15.S8", dec, "counter guard admits every encodable value", ret, fires < 0,
				fmt.Sprintf("the decoder rejects at group %d although the encoder emits up to %d groups for a %d-bit value: decode(encode(x)) fails for large x", fires, groups, bits))
			break
		}
		if !decided {
			c.Undecided("C15.S8", dec, "decoder rejection", ret, "a failure exit of the varint decoder is neither the exhausted-input test nor a recognisable counter guard")
		}
	}
	if n == 0 {
		c.Decide("C15.S8", dec, "decoder has a failure exit", nil, false, "the varint decoder never fails: truncated input cannot be reported")
	}
}

// fixedWidthSiblings is C15.S4.
func (c *Ctx) fixedWidthSiblings() {
	ow := c.P.LookupType("xbinary", "ObjectsWriter")
	if ow == nil {
		c.Fatalf("role ObjectsWriter not found")
	}
	for _, n := range []int64{16, 32, 64} {
		w := n / 8
		suffix := fmt.Sprint(n)
		m := c.RequireFn(c.P.Func("xbinary", "MarshalUint"+suffix), "MarshalUint"+suffix)
		u := c.RequireFn(c.P.Func("xbinary", "UnmarshalUint"+suffix), "UnmarshalUint"+suffix)
		wr := c.RequireFn(c.P.MethodOf(ow, "WriteUint"+suffix), "ObjectsWriter.WriteUint"+suffix)
		callOf := func(fn *ssa.Function, name string) *ssa.Call {
			var res *ssa.Call
			ir.Instrs(fn, func(in ssa.Instruction) {
				if call, ok := in.(*ssa.Call); ok && ir.CalleeFullName(call) == name {
					res = call
				}
			})
			return res
		}
		put := "(encoding/binary.bigEndian).PutUint" + suffix
		get := "(encoding/binary.bigEndian).Uint" + suffix
		// encoder
		pc := callOf(m, put)
		c.Decide("C15.S4", m, "big-endian PutUint"+suffix, pc, pc != nil, "MarshalUint"+suffix+" does not use binary.BigEndian.PutUint"+suffix)
		for _, ret := range ir.Returns(m) {
			if ir.ClassifyErr(ir.ResultValue(ret, 1), ret.Block()) == ir.ErrNil {
				k, isC := ir.ConstInt(ir.ResultValue(ret, 0))
				c.Decide("C15.S4", m, fmt.Sprintf("returns %d", w), ret, isC && k == w, fmt.Sprintf("MarshalUint%s reports %d bytes written instead of %d", suffix, k, w))
			}
		}
		// decoder
		gc := callOf(u, get)
		c.Decide("C15.S4", u, "big-endian Uint"+suffix, gc, gc != nil, "UnmarshalUint"+suffix+" does not use binary.BigEndian.Uint"+suffix)
		if gc != nil {
			okArg := same(ir.MethodArgs(gc)[0], bufParam(u, false))
			c.Decide("C15.S4", u, "decodes the head of the buffer", gc, okArg, "the value is not decoded from the start of the input buffer")
		}
		for _, ret := range ir.Returns(u) {
			if ir.ClassifyErr(ir.ResultValue(ret, 2), ret.Block()) == ir.ErrNil {
				k, isC := ir.ConstInt(ir.ResultValue(ret, 0))
				c.Decide("C15.S4", u, fmt.Sprintf("returns %d", w), ret, isC && k == w, fmt.Sprintf("UnmarshalUint%s reports %d bytes consumed instead of %d", suffix, k, w))
				if gc != nil {
					c.Decide("C15.S4", u, "returns the decoded value", ret, ir.Resolve(ir.ResultValue(ret, 1)) == ssa.Value(gc), "the returned value is not the decoded one")
				}
			}
		}
		// writer: PutUintN(ow.buf[:w], v); Writer.Write(same slice)
		wc := callOf(wr, put)
		okW := false
		detail := "WriteUint" + suffix + " does not encode with binary.BigEndian.PutUint" + suffix
		if wc != nil {
			detail = fmt.Sprintf("WriteUint%s does not write exactly the %d-byte prefix it encoded", suffix, w)
			sl, _ := ir.Resolve(ir.MethodArgs(wc)[0]).(*ssa.Slice)
			if sl != nil && sl.Low == nil && sl.High != nil {
				if hi, isC := ir.ConstInt(sl.High); isC && hi == w {
					ir.Instrs(wr, func(in ssa.Instruction) {
						if call, ok := in.(*ssa.Call); ok && call.Call.IsInvoke() && call.Call.Method.Name() == "Write" {
							if ir.Resolve(call.Call.Args[0]) == ssa.Value(sl) && ir.Dominates(wc, call) {
								okW = true
							}
						}
					})
				}
			}
			// value argument is the parameter
			if pv := ir.MethodArgs(wc)[1]; len(wr.Params) >= 2 && ir.Resolve(pv) != ssa.Value(wr.Params[1]) {
				okW, detail = false, "WriteUint"+suffix+" encodes something else than its argument"
			}
		}
		c.Decide("C15.S4", wr, fmt.Sprintf("writes its %d encoded bytes", w), wc, okW, detail)
		if pc != nil {
			okV := len(m.Params) >= 1 && ir.Resolve(ir.MethodArgs(pc)[1]) == ssa.Value(m.Params[0]) && same(ir.MethodArgs(pc)[0], bufParam(m, true))
			c.Decide("C15.S4", m, "encodes its argument into the buffer head", pc, okV, "MarshalUint"+suffix+" does not put its argument at the start of the buffer")
		}
	}
	c.R.Floor("C15.S4", 21)
}

// oneEncoder is C15.S5.
func (c *Ctx) oneEncoder() {
	ow := c.P.LookupType("xbinary", "ObjectsWriter")
	mu := c.RequireFn(c.P.Func("xbinary", "MarshalUint"), "MarshalUint")
	sizeU := c.RequireFn(c.P.Func("xbinary", "WritableUintSize"), "WritableUintSize")
	wu := c.RequireFn(c.P.MethodOf(ow, "WriteUint"), "ObjectsWriter.WriteUint")
	wb := c.RequireFn(c.P.MethodOf(ow, "WriteBytes"), "ObjectsWriter.WriteBytes")
	mb := c.RequireFn(c.P.Func("xbinary", "MarshalBytes"), "MarshalBytes")
	sb := c.RequireFn(c.P.Func("xbinary", "WritebleBytesSize"), "WritebleBytesSize")
	ws := c.RequireFn(c.P.MethodOf(ow, "WriteString"), "ObjectsWriter.WriteString")
	ms := c.RequireFn(c.P.Func("xbinary", "MarshalString"), "MarshalString")
	ss := c.RequireFn(c.P.Func("xbinary", "WritableStringSize"), "WritableStringSize")

	// WriteUint: MarshalUint(v, ow.buf[:]) on an array of >= 10 bytes; Write(ow.buf[:n]) with n the count
	{
		calls := callsTo(wu, mu)
		ok, detail := false, "WriteUint does not call MarshalUint"
		if len(calls) == 1 {
			call := calls[0]
			detail = "WriteUint does not write exactly the bytes MarshalUint produced from a scratch array that holds the longest varint"
			sl, _ := ir.Resolve(call.Call.Args[1]).(*ssa.Slice)
			if sl != nil {
				if arr, isArr := derefArray(sl.X.Type()); isArr && arr.Len() >= 10 && sl.Low == nil && sl.High == nil {
					ir.Instrs(wu, func(in ssa.Instruction) {
						w, isCall := in.(*ssa.Call)
						if !isCall || !w.Call.IsInvoke() || w.Call.Method.Name() != "Write" {
							return
						}
						ws, _ := ir.Resolve(w.Call.Args[0]).(*ssa.Slice)
						if ws == nil || ws.Low != nil || ws.High == nil || ir.Path(ws.X) != ir.Path(sl.X) {
							return
						}
						if ex, isEx := ir.Resolve(ws.High).(*ssa.Extract); isEx && ex.Tuple == ssa.Value(call) && ex.Index == 0 {
							ok = true
						}
					})
				}
			}
			if len(wu.Params) >= 2 && ir.Resolve(call.Call.Args[0]) != ssa.Value(wu.Params[1]) {
				ok, detail = false, "WriteUint encodes something else than its argument"
			}
		}
		c.Decide("C15.S5", wu, "MarshalUint into scratch[10], write scratch[:n]", nil, ok, detail)
	}
	// length prefix = uint(len(v)) through the varint encoder, then the body
	lenPrefix := func(fn *ssa.Function, enc *ssa.Function, argIdx int, body ssa.Value) (*ssa.Call, bool) {
		calls := callsTo(fn, enc)
		if len(calls) != 1 {
			return nil, false
		}
		a := ir.Resolve(calls[0].Call.Args[argIdx])
		if cv, ok := a.(*ssa.Convert); ok {
			a = cv.X
		}
		return calls[0], isLenOf(a, body)
	}
	{
		call, ok := lenPrefix(wb, wu, 1, wb.Params[1])
		okBody := false
		if call != nil {
			ir.Instrs(wb, func(in ssa.Instruction) {
				if w, isCall := in.(*ssa.Call); isCall && w.Call.IsInvoke() && w.Call.Method.Name() == "Write" && ir.Resolve(w.Call.Args[0]) == ssa.Value(wb.Params[1]) && ir.Dominates(call, w) {
					okBody = true
				}
			})
		}
		c.Decide("C15.S5", wb, "varint(len(v)) then v", call, ok && okBody, "WriteBytes does not emit the varint of len(v) followed by v")
	}
	{
		call, ok := lenPrefix(mb, mu, 0, mb.Params[0])
		okBody := false
		if call != nil {
			ir.Instrs(mb, func(in ssa.Instruction) {
				if cc := builtinCall(in, "copy"); cc != nil && ir.Resolve(cc.Args[1]) == ssa.Value(mb.Params[0]) && ir.Dominates(call, in) {
					// the destination starts right after the prefix: root slice buf[idx:] with idx the count of the prefix
					d := ir.Resolve(cc.Args[0])
					for {
						s, isS := d.(*ssa.Slice)
						if !isS {
							break
						}
						if ex, isEx := ir.Resolve(s.Low).(*ssa.Extract); s.Low != nil && isEx && ex.Tuple == ssa.Value(call) && ex.Index == 0 {
							okBody = true
						}
						d = ir.Resolve(s.X)
					}
				}
			})
		}
		c.Decide("C15.S5", mb, "varint(len(v)) then v right after it", call, ok && okBody, "MarshalBytes does not emit the varint of len(v) followed directly by v")
		// returned count = len + prefix
		for _, ret := range ir.Returns(mb) {
			if ir.ClassifyErr(ir.ResultValue(ret, 1), ret.Block()) != ir.ErrNil {
				continue
			}
			okCnt := false
			if bo, isBin := ir.Resolve(ir.ResultValue(ret, 0)).(*ssa.BinOp); isBin && bo.Op == token.ADD && call != nil {
				isPre := func(v ssa.Value) bool {
					ex, isEx := ir.Resolve(v).(*ssa.Extract)
					return isEx && ex.Tuple == ssa.Value(call) && ex.Index == 0
				}
				isLen := func(v ssa.Value) bool { return isLenOf(v, mb.Params[0]) }
				okCnt = (isPre(bo.X) && isLen(bo.Y)) || (isPre(bo.Y) && isLen(bo.X))
			}
			c.Decide("C15.S5", mb, "count = prefix + len(v)", ret, okCnt, "MarshalBytes does not report prefix+len(v) bytes written")
		}
	}
	{
		// WritebleBytesSize = WritableUintSize(uint64(len(buf))) + len(buf)
		ok := false
		for _, ret := range ir.Returns(sb) {
			if bo, isBin := ir.Resolve(ret.Results[0]).(*ssa.BinOp); isBin && bo.Op == token.ADD {
				isSz := func(v ssa.Value) bool {
					call, isCall := ir.Resolve(v).(*ssa.Call)
					if !isCall || ir.StaticCallee(call) != sizeU {
						return false
					}
					a := ir.Resolve(call.Call.Args[0])
					if cv, isCv := a.(*ssa.Convert); isCv {
						a = cv.X
					}
					return isLenOf(a, sb.Params[0])
				}
				isLen := func(v ssa.Value) bool { return isLenOf(v, sb.Params[0]) }
				ok = (isSz(bo.X) && isLen(bo.Y)) || (isSz(bo.Y) && isLen(bo.X))
			}
		}
		c.Decide("C15.S5", sb, "size = WritableUintSize(len)+len", nil, ok, "the predicted size of a byte string is not WritableUintSize(len)+len")
	}
	// the string forms delegate to the byte forms through the zero-copy cast
	deleg := func(fn, to *ssa.Function, argIdx int) {
		ok := false
		for _, call := range callsTo(fn, to) {
			if cc, isCall := ir.Resolve(call.Call.Args[argIdx]).(*ssa.Call); isCall && strings.HasSuffix(ir.CalleeFullName(cc), "cast.StringToByteArray") {
				for _, ret := range ir.Returns(fn) {
					if ex, isEx := ir.Resolve(ret.Results[0]).(*ssa.Extract); isEx && ex.Tuple == ssa.Value(call) {
						ok = true
					}
					if ir.Resolve(ret.Results[0]) == ssa.Value(call) {
						ok = true
					}
				}
			}
		}
		c.Decide("C15.S5", fn, "string form delegates to "+to.Name(), nil, ok, fn.Name()+" does not delegate to "+to.Name()+" on the bytes of the string")
	}
	deleg(ws, wb, 1)
	deleg(ms, mb, 0)
	deleg(ss, sb, 0)
	c.R.Floor("C15.S5", 8)
}

func derefArray(t types.Type) (*types.Array, bool) {
	if p, ok := t.Underlying().(*types.Pointer); ok {
		t = p.Elem()
	}
	a, ok := t.Underlying().(*types.Array)
	return a, ok
}

// independentCopy is C15.S6.
func (c *Ctx) independentCopy() {
	ub := c.RequireFn(c.P.Func("xbinary", "UnmarshalBytes"), "UnmarshalBytes")
	sc := c.RequireFn(c.P.Func("container", "SliceCopy"), "container.SliceCopy")
	if len(ub.Params) < 2 {
		c.Fatalf("UnmarshalBytes: unexpected signature")
	}
	flag := ub.Params[1]
	for _, ret := range ir.Returns(ub) {
		if ir.ClassifyErr(ir.ResultValue(ret, 2), ret.Block()) != ir.ErrNil {
			continue
		}
		rv := ir.Resolve(ir.ResultValue(ret, 1))
		ok, detail := false, "with newBuf=true the returned slice still aliases the source buffer"
		// phi: the operand arriving over the newBuf-true edge must be the SliceCopy call
		if ph, isPhi := rv.(*ssa.Phi); isPhi {
			allTrueEdgesCopy, sawTrue := true, false
			for i, e := range ph.Edges {
				pred := ph.Block().Preds[i]
				onTrue := ir.HasFact(pred, func(f ir.Fact) bool { f = f.StripNot(); return f.Cond == ssa.Value(flag) && f.True })
				if ef := ir.EdgeFact(pred, ph.Block()); ef != nil {
					if f := ef.StripNot(); f.Cond == ssa.Value(flag) && f.True {
						onTrue = true
					}
				}
				call, isCall := ir.Resolve(e).(*ssa.Call)
				isCopy := isCall && ir.StaticCallee(call) == sc
				if onTrue {
					sawTrue = true
					if !isCopy {
						allTrueEdgesCopy = false
					}
				} else if !isCopy {
					// the other edge may only be reached with newBuf false
					if !ir.HasFact(pred, func(f ir.Fact) bool { f = f.StripNot(); return f.Cond == ssa.Value(flag) && !f.True }) {
						if ef := ir.EdgeFact(pred, ph.Block()); ef == nil || ef.StripNot().Cond != ssa.Value(flag) || ef.StripNot().True {
							allTrueEdgesCopy = false
						}
					}
				}
			}
			ok = sawTrue && allTrueEdgesCopy
		} else if call, isCall := rv.(*ssa.Call); isCall && ir.StaticCallee(call) == sc {
			ok = true
		}
		c.Decide("C15.S6", ub, "newBuf edge returns SliceCopy", ret, ok, detail)
	}
	// the string form: either it hands its own flag on to UnmarshalBytes, or its newBuf edge converts (copies)
	us := c.RequireFn(c.P.Func("xbinary", "UnmarshalString"), "UnmarshalString")
	if len(us.Params) >= 2 {
		sflag := us.Params[1]
		delegates := false
		for _, call := range callsTo(us, ub) {
			if ir.Resolve(call.Call.Args[1]) == ssa.Value(sflag) {
				delegates = true
			}
		}
		if delegates {
			c.Decide("C15.S6", us, "string form hands newBuf on to UnmarshalBytes", nil, true, "")
		} else {
			// every success return reachable with newBuf == true must return a converted (copied) string
			ok := true
			n := 0
			for _, ret := range ir.Returns(us) {
				if ir.ClassifyErr(ir.ResultValue(ret, 2), ret.Block()) == ir.ErrNonNil {
					continue
				}
				falseOnly := ir.HasFact(ret.Block(), func(f ir.Fact) bool { ff := f.StripNot(); return ff.Cond == ssa.Value(sflag) && !ff.True })
				if falseOnly {
					continue
				}
				n++
				isCopy := false
				for _, o := range ir.Origins(ir.ResultValue(ret, 1)) {
					if cv, isCv := o.(*ssa.Convert); isCv {
						if _, isSlice := cv.X.Type().Underlying().(*types.Slice); isSlice {
							isCopy = true
						}
					}
				}
				if !isCopy {
					ok = false
				}
			}
			c.Decide("C15.S6", us, "string decoded with newBuf is a copy", nil, ok && n > 0, "UnmarshalString neither passes newBuf on to UnmarshalBytes nor copies on its newBuf edge: with newBuf=true the returned string still aliases the source buffer")
		}
	}
	// SliceCopy returns a made slice filled by copy
	okMake := false
	for _, ret := range ir.Returns(sc) {
		for _, o := range ir.Origins(ret.Results[0]) {
			if _, isMake := o.(*ssa.MakeSlice); isMake {
				okMake = true
			}
		}
	}
	okCopy := false
	ir.Instrs(sc, func(in ssa.Instruction) {
		if cc := builtinCall(in, "copy"); cc != nil {
			if _, isMake := ir.Resolve(cc.Args[0]).(*ssa.MakeSlice); isMake && ir.Resolve(cc.Args[1]) == ssa.Value(sc.Params[0]) {
				okCopy = true
			}
		}
		if cc := builtinCall(in, "append"); cc != nil {
			okCopy = true
		}
	})
	c.Decide("C15.S6", sc, "SliceCopy returns a fresh made slice", nil, okMake && okCopy, "container.SliceCopy does not return a freshly allocated copy")
	c.R.Floor("C15.S6", 3)
}

// resultInterval computes an interval for the integer result of fn by abstract interpretation over intervals
// (no branch refinement): constants, + - * / by constants, bits.Len64 in [0,64], phi = join.
func resultInterval(fn *ssa.Function) (lo, hi int64, ok bool) {
	type iv struct {
		lo, hi int64
		ok     bool
	}
	memo := map[ssa.Value]iv{}
	var eval func(v ssa.Value, depth int) iv
	eval = func(v ssa.Value, depth int) iv {
		if r, done := memo[v]; done {
			return r
		}
		if depth > 20 {
			return iv{}
		}
		memo[v] = iv{} // cycles are unknown
		var r iv
		switch x := v.(type) {
		case *ssa.Const:
			if k, isC := ir.ConstInt(x); isC {
				r = iv{k, k, true}
			}
		case *ssa.Convert:
			r = eval(x.X, depth+1)
		case *ssa.Call:
			switch ir.CalleeFullName(x) {
			case "math/bits.Len64", "math/bits.Len":
				r = iv{0, 64, true}
			case "math/bits.Len32":
				r = iv{0, 32, true}
			case "math/bits.Len16":
				r = iv{0, 16, true}
			case "math/bits.Len8":
				r = iv{0, 8, true}
			}
			if b := builtinCall(x, "max"); b != nil && len(b.Args) == 2 {
				a, c2 := eval(b.Args[0], depth+1), eval(b.Args[1], depth+1)
				if a.ok && c2.ok {
					r = iv{maxI(a.lo, c2.lo), maxI(a.hi, c2.hi), true}
				}
			}
		case *ssa.BinOp:
			a, b := eval(x.X, depth+1), eval(x.Y, depth+1)
			if !a.ok || !b.ok {
				break
			}
			switch x.Op {
			case token.ADD:
				r = iv{a.lo + b.lo, a.hi + b.hi, true}
			case token.SUB:
				r = iv{a.lo - b.hi, a.hi - b.lo, true}
			case token.MUL:
				if a.lo >= 0 && b.lo >= 0 {
					r = iv{a.lo * b.lo, a.hi * b.hi, true}
				}
			case token.QUO:
				if b.lo == b.hi && b.lo > 0 && a.lo >= 0 {
					r = iv{a.lo / b.lo, a.hi / b.lo, true}
				}
			}
		case *ssa.Phi:
			r = iv{0, 0, true}
			first := true
			for _, e := range x.Edges {
				ev := eval(e, depth+1)
				if !ev.ok {
					r = iv{}
					break
				}
				if first {
					r, first = ev, false
				} else {
					r = iv{minI(r.lo, ev.lo), maxI(r.hi, ev.hi), true}
				}
			}
		}
		memo[v] = r
		return r
	}
	res := iv{0, 0, false}
	first := true
	for _, ret := range ir.Returns(fn) {
		ev := eval(ret.Results[0], 0)
		if !ev.ok {
			return 0, 0, false
		}
		if first {
			res, first = ev, false
		} else {
			res = iv{minI(res.lo, ev.lo), maxI(res.hi, ev.hi), true}
		}
	}
	return res.lo, res.hi, res.ok
}

func minI(a, b int64) int64 {
	if a < b {
		return a
	}
	return b
}

func maxI(a, b int64) int64 {
	if a > b {
		return a
	}
	return b
}

// sliceRemaining is the second half of C16.R3: when input is cut as X[lo:hi] with hi = t or hi = lo + t for a wire
// length t, the guard that bounds t must compare it with what remains of X: len(X)-lo (or len(X) when lo is absent).
func (c *Ctx) sliceRemaining(fn *ssa.Function, s *ssa.Slice, tainted map[ssa.Value]bool, buf ssa.Value) {
	if s.High == nil || !same(sliceRoot(s), buf) {
		return
	}
	strip := func(v ssa.Value) ssa.Value {
		for {
			if cv, ok := v.(*ssa.Convert); ok {
				v = cv.X
				continue
			}
			return v
		}
	}
	hi := ir.Resolve(s.High)
	var t, lo ssa.Value
	if tainted[hi] {
		if bo, ok := hi.(*ssa.BinOp); ok && bo.Op == token.ADD {
			switch {
			case tainted[bo.Y] && !tainted[bo.X]:
				t, lo = bo.Y, bo.X
			case tainted[bo.X] && !tainted[bo.Y]:
				t, lo = bo.X, bo.Y
			}
		} else {
			t = hi
		}
	}
	if t == nil {
		return
	}
	if s.Low != nil && lo != nil && ir.Resolve(s.Low) != ir.Resolve(lo) {
		return // not of the form X[lo:lo+t]
	}
	if s.Low != nil && lo == nil {
		return
	}
	u := strip(t)
	remaining := func(y ssa.Value) bool {
		y = strip(ir.Resolve(y))
		if lo == nil {
			return isLenOf(y, s.X)
		}
		if bo, ok := y.(*ssa.BinOp); ok && bo.Op == token.SUB {
			return isLenOf(bo.X, s.X) && ir.Resolve(bo.Y) == ir.Resolve(lo)
		}
		return false
	}
	ok := false
	for _, f := range ir.Facts(s.Block()) {
		cm, isCmp := f.Cmp()
		if !isCmp {
			continue
		}
		op, x, y := cm.Op, cm.X, cm.Y
		match := func(v ssa.Value) bool { return v == t || v == u || strip(v) == u }
		if !match(x) {
			if !match(y) {
				continue
			}
			x, y = y, x
			op = ir.SwapOp(op)
		}
		if (op == token.LEQ || op == token.LSS) && remaining(y) {
			ok = true
		}
	}
	c.Decide("C16.R3", fn, "wire length bounded by what remains of the sliced input", s, ok,
		"the length taken from the input is compared with something else than the remaining length of the slice it cuts (len(x)-offset): a record truncated by less than the header size passes the check, the decoder over-reads behind the input or panics")
}
