package rules

import (
	"fmt"
	"go/token"
	"go/types"
	"math"
	"math/big"
	"sort"
	"strings"

	"golang.org/x/tools/go/ssa"

	"verif/checker/ir"
)

func init() {
	register(&Check{
		ID: "C15", Title: "Binary codec: decode(encode(x)) = x and predicted size = written size",
		Pkgs:      []string{"xbinary", "container", "cast"},
		Run:       runC15,
		Technique: "static analysis: interval-partition interpretation of the size decision tree (exhaustive over its finite orderings), constant agreement between encoder and decoder, sibling agreement of the fixed-width codecs, provenance of the copied result (go/ssa)",
		Explanation: "S2: WritableUintSize uses its argument only in comparisons with values that do not depend on it (constants, elements of a constant table), here or in private functions it is handed to; the function is evaluated at every value it compares with and its neighbours (exhaustive under that discipline) and must map [2^(7(k-1)),2^(7k)) to k for k=1..10. " +
			"S3: the varint encoder/decoder (the functions holding the loops, also behind thin exported wrappers) agree on one group width g=7: payload mask 2^g-1, continuation flag 2^g, shift g (accumulator step - in a register or in a field of a non-escaping local struct - or multiple of the loop variable), continuation tests v>=2^g / b<2^g (also as the bit test b&2^g) on the edges that emit/stop. " +
			"S4: for N in 16,32,64 Marshal/Unmarshal/ObjectsWriter use binary.BigEndian Put/Uint/AppendUintN (or the sibling MarshalUintN), are guarded by and return N/8 at every exit, and the writer emits exactly its N/8-byte prefix of the scratch array. " +
			"S5: WriteUint/WriteBytes/MarshalBytes encode the length through the one varint encoder followed by the body; the size functions are WritableUintSize(len)+len; the scratch array holds the longest varint; string forms go through the cast, a shared generic implementation, or the same formula. " +
			"S6: every exit reachable with newBuf=true returns a fresh copy (container.SliceCopy, or make+copy), and SliceCopy's result is a freshly made slice. " +
			"S7: every Marshal* store into the destination (also in a private function the buffer is handed to) is dominated by a length guard on the index/window and every copy has a destination of exactly len(src) elements or one the guards show to be no shorter, so a short buffer is an error and never a silent truncation. " +
			"S8: the varint decoder rejects only on exhausted input (position == len(buf), an empty cursor, or a not-found count of a scan that ran to len(buf)) or on a counter guard that cannot fire while groups an encoder can produce are still to be read (threshold reasoning on the induction variables). S9: a fixed-width coder refuses a buffer only when it is shorter than the N bytes it codes (a buffer of exactly N bytes - what the encoder produced - is accepted). " +
			"S10: in every function of the codec package, the error of every emission (a Write on the destination io.Writer, or a call of a package function that transitively does one and reports an error) reaches the caller: on every path from the emission to a return the emission's error is known to be nil, or the returned error is that very error, or it is known to be non-nil (decided per path, phi operands and result variables resolved by the path); an emission whose error is never read is violated. " +
			"S11: a scratch region that is released to shared storage ((*sync.Pool).Put, a channel send, directly or through a private function that does so with its parameter) is not used afterwards - no path from the release to an instruction that uses the region or an alias of it (window, pointer, element address) other than through the instruction that obtains a region anew; a deferred release counts at the return. " +
			"S12: the destination of every emission in the codec package (receiver of an interface Write/WriteByte/WriteString, a writer handed to another call) originates - through type assertions, phis, locals, results of package functions and parameters of private functions followed to their call sites - from values read in the same call, never from a private field of a struct that has an exported io.Writer field (the stream writer): every byte goes to the current value of the exported field. " +
			"S13: no exit of UnmarshalBytes/UnmarshalString (exported decoders whose value is a byte slice or string) that can report an error is controlled by a condition computed from the decoded body (the value the other exits return, followed back through casts, copies and phis to the window, the copy or the delegate's value result; anything computed from it except len/cap), since the encoders accept every byte sequence. " +
			"S14: an exit of a Marshal/Unmarshal function whose count is the constant 0 returns an error that is provably non-nil there (fresh, sentinel, a helper all of whose exits are fresh errors, or non-nil by the exit's branch facts): (0, nil) is never an answer. " +
			"S15: on every way into a failing exit of UnmarshalBytes/UnmarshalString either the error of the decoder it delegates to is non-nil, or a branch fact says strictly wire length > len(buf) - header bytes (unsigned, signed on the converted value, or against a constant no int exceeds): no rejection on which length <= remaining may hold. S16: a Marshal function (and the private functions it hands its destination to) never uses cap() of the destination, and hands a slice of it to append / binary.Append* only where the branch facts show len(buf) has room for everything the call can add: an encoder writes only inside buf[:len(buf)].",
		NotDecided: "the round-trip equality decode(encode(x))=x as a value statement; the shift/or arithmetic inside the loops.",
	})
	register(&Check{
		ID: "C16", Title: "Binary decoders are total: arbitrary bytes never panic or over-read",
		Pkgs:      []string{"xbinary", "container", "cast"},
		Run:       runC16,
		Technique: "static analysis: guard dominance for fixed-width reads, loop-index idiom, taint from wire lengths to arithmetic/slicing sinks with bound-by-guard sanitisation, exit classification (go/ssa)",
		Explanation: "Applies to the exported Unmarshal functions and to the private functions they hand their input to. Guard facts are the branch conditions on the dominator chain, extended through tested flags/errors that were merged (single-exit style, inlined helpers) and through error-returning guard helpers; exits are the alternatives of the return statements. " +
			"R1: every binary.BigEndian.UintN(x), constant index buf[c] and constant re-slicing of buf is dominated by facts implying that the bytes touched lie within len(buf). " +
			"R2: a variable index buf[i] needs a lower bound >= 0 (loop variable from a constant, lengths) and facts implying i < len(buf) (i<len, or i!=len for a loop variable that provably never exceeds len); R1/R2 apply to every view of the buffer (windows, phi-merged windows, a shrinking cursor rest=rest[k:] that walks it), each access bounded by the length of the slice value it is made on. " +
			"R3: a wire length (result of a varint/fixed decoder, also when kept in a local struct) reaches arithmetic, slice bounds, indices or make sizes only where guard facts bound it: an unsigned comparison against a len(buf)-derived operand, or sign test plus signed bound after the conversion (the sign test may be made before the conversion: the unsigned value is compared with a constant the signed type can hold, and the signed bound may be tested on another evaluation of the same conversion); a window of t bytes is cut only after t was compared with what remains of the sliced value; an offset result that a private decoder proves to lie within its buffer at every success exit is bounded where it is used as a bound of that very buffer, or is added to the start of the window that was passed (a running offset fed this way is bounded as a bound of the buffer it walks) - any other arithmetic on it is reported. " +
			"R4: every failure exit reports 0 consumed bytes (or the count of the failing callee, 0 under its own R4). " +
			"R5: a returned slice/string derives from a sub-slice of the input or from a copy (SliceCopy, make+copy) of one; a returned list of byte sequences starts empty and grows by append of such values. " +
			"R6: the consumed count of a success exit is a guarded constant, an expression the facts and loop invariants (loop variable <= len, len(cursor) <= len(buf) for a cursor only re-sliced without upper bound) place in [0,len(buf)], a callee count (also a further offset result of a private decoder that the callee proves to lie within its buffer at every success exit), a running offset that starts at 0 and grows by the counts of decoders applied to buf[offset:], a count computed with the math/bits counting functions whose whole interval (TrailingZeros64 etc. range over 0..64) is covered by the length guard, the end offset of a window cut from buf under R3, or an external decoder's count under an n>0 guard. R3 also: a byte of the input used as a number (a one-byte length header) is a wire length where it bounds a slice. R7: private functions reached from the decoders (error constructors, formatters) index fixed-size tables in range, by interval evaluation of the index (constants, + - / by constants, widening conversions, bits.Len as a monotone function - bits.Len(x) of a 64-bit unsigned x that is not bounded below 2^63 ranges up to 64, i.e. over 65 values -, refined by dominating comparisons with constants). R8: in every loop of the decoders (and of the private functions they hand their input to) the cursor - an integer phi of the loop header that reaches an index or slice bound of the buffer, or a phi that is a window of the buffer - does not arrive recognisably unchanged (the phi itself, also through merges in the body, plus zero, re-sliced from 0) over any back edge: a way round the loop that does not advance reads the same byte again and never returns. R9 (x_c16_i.go): every shift in a decoder or its private helpers whose count is a non-constant signed value has a count shown >= 0 by interval evaluation (arithmetic, loop variables, dominating comparisons with constants) - Go panics on a negative signed shift count whatever the shifted value.",
		NotDecided: "nothing material about panics on the idioms recognised; an unrecognised index/bound expression is reported as undecided (CHECK-ERROR), not guessed. 'Sub-range' is established as provenance, not arithmetic.",
	})
}

// ---------------------------------------------------------------------------
// shared helpers

// lenOf reports whether v is len(x) of a value resolving to slice s.
func isLenOf(v ssa.Value, s ssa.Value) bool {
	v = ir.Resolve(v)
	call, ok := v.(*ssa.Call)
	if !ok {
		return false
	}
	cc := builtinCall(call, "len")
	return cc != nil && same(cc.Args[0], s)
}

// lenLowerBound returns the largest K such that guard facts at block b imply len(s) >= K.
func lenLowerBound(b *ssa.BasicBlock, s ssa.Value) int64 {
	return ctxAtB(b).lenAtLeast(s)
}

// inductionVar decodes v as phi(c0, v+step) and returns c0, step.
func inductionVar(v ssa.Value) (phi *ssa.Phi, c0, step int64, ok bool) {
	p, isPhi := v.(*ssa.Phi)
	if !isPhi || len(p.Edges) != 2 {
		return nil, 0, 0, false
	}
	var init, next ssa.Value
	for _, e := range p.Edges {
		if _, isC := ir.ConstInt(e); isC {
			init = e
		} else {
			next = e
		}
	}
	if init == nil || next == nil {
		return nil, 0, 0, false
	}
	c0, _ = ir.ConstInt(init)
	bo, isBin := next.(*ssa.BinOp)
	if !isBin || bo.Op != token.ADD || bo.X != ssa.Value(p) {
		return nil, 0, 0, false
	}
	st, isC := ir.ConstInt(bo.Y)
	if !isC {
		return nil, 0, 0, false
	}
	return p, c0, st, true
}

// indexWithinB reports whether the facts of cx imply 0 <= i < len(s). undecided: the index is not built from values with a
// known lower bound (loop variables, lengths, constants).
func indexWithinB(cx *linCtxB, i ssa.Value, s ssa.Value) (ok, undecided bool) {
	idx := cx.of(i)
	lb, known := cx.lowerBound(idx)
	if !known {
		return false, true
	}
	return lb >= 0 && cx.impliesLE(idx.add(linConstB(1), 1), cx.lenOf(s, 0)), false
}

func xbinaryFuncs(c *Ctx, prefix string) []*ssa.Function {
	var res []*ssa.Function
	pk := c.P.SSAPkg("xbinary")
	if pk == nil {
		c.Fatalf("package xbinary not loaded")
	}
	var names []string
	for n, m := range pk.Members {
		if fn, ok := m.(*ssa.Function); ok && strings.HasPrefix(n, prefix) && fn.Object() != nil && fn.Object().Exported() {
			names = append(names, n)
		}
	}
	sort.Strings(names)
	for _, n := range names {
		res = append(res, pk.Func(n))
	}
	return res
}

// bufParam returns the []byte parameter that is the coding buffer: for Unmarshal* the first
// parameter, for Marshal* the parameter named by position (last []byte parameter).
func bufParam(fn *ssa.Function, last bool) *ssa.Parameter {
	var res *ssa.Parameter
	for _, p := range fn.Params {
		if sl, ok := p.Type().Underlying().(*types.Slice); ok && types.Identical(sl.Elem(), types.Typ[types.Byte]) {
			if !last {
				return p
			}
			res = p
		}
	}
	return res
}

// sliceRoot follows Slice instructions to their base value.
func sliceRoot(v ssa.Value) ssa.Value {
	for {
		v = ir.Resolve(v)
		if s, ok := v.(*ssa.Slice); ok {
			v = s.X
			continue
		}
		return v
	}
}

// binaryWidthB returns the number of bytes a fixed-width accessor of encoding/binary touches at the head of its argument.
func binaryWidthB(call ssa.CallInstruction) int64 {
	name := ir.CalleeFullName(call)
	if !strings.HasPrefix(name, "(encoding/binary.") {
		return 0
	}
	switch {
	case strings.HasSuffix(name, "ndian).Uint16"), strings.HasSuffix(name, "ndian).PutUint16"):
		return 2
	case strings.HasSuffix(name, "ndian).Uint32"), strings.HasSuffix(name, "ndian).PutUint32"):
		return 4
	case strings.HasSuffix(name, "ndian).Uint64"), strings.HasSuffix(name, "ndian).PutUint64"):
		return 8
	}
	return 0
}

// fixedWidthAccess checks R1/S7 for one function: BigEndian.(Put)UintN(x) with x = buf or a window of buf / of a fixed
// array, buf[const], and re-slicing of buf with constant bounds.
func (c *Ctx) fixedWidthAccess(rule string, fn *ssa.Function, buf ssa.Value) {
	// the buffer, its windows and the cursors that walk it: every access is bounded by the length of the slice value it
	// is made on
	views := bufViewsG(fn, buf)
	isView := func(v ssa.Value) bool { return same(v, buf) || views[ir.Resolve(v)] }
	ir.Instrs(fn, func(in ssa.Instruction) {
		switch x := in.(type) {
		case *ssa.Call:
			need := binaryWidthB(x)
			if need == 0 {
				// the buffer handed to a function value: what it reads is not known here
				if _, isBuiltin := x.Call.Value.(*ssa.Builtin); !isBuiltin && !x.Call.IsInvoke() && x.Call.StaticCallee() == nil {
					for _, a := range x.Call.Args {
						if same(sliceRoot(a), buf) {
							c.Undecided(rule, fn, "buffer handed to a function value", x, "the buffer is passed to a function value: the rule cannot see how many bytes it touches")
						}
					}
				}
				return
			}
			cx := ctxAtB(x.Block())
			arg := ir.MethodArgs(x)[0]
			root, lo, hi := cx.sliceExtent(arg)
			if arr, isArr := derefArray(root.Type()); isArr {
				if _, isSlice := cx.refine(arg).(*ssa.Slice); isSlice {
					// a window of a fixed array, e.g. ow.buf[:2]: constant bounds decide
					l, lc := lo.isConst()
					h, hc := hi.isConst()
					if lc && hc && l >= 0 && h-l >= need && h <= arr.Len() {
						c.Decide(rule, fn, fmt.Sprintf("%d-byte access on fixed prefix", need), x, true, "")
						return
					}
				}
			}
			if !same(root, buf) {
				c.Undecided(rule, fn, fmt.Sprintf("%d-byte access", need), x, "the accessed slice is neither (a window of) the buffer parameter nor a constant prefix of an array")
				return
			}
			// the window [lo,hi) of buf must hold `need` bytes and lie within the guarded length of buf
			lb := cx.lenAtLeast(buf)
			loMin, loKnown := cx.lowerBound(lo)
			ok := loKnown && loMin >= 0 && cx.impliesLE(lo.add(linConstB(need), 1), hi) && cx.impliesLE(hi, cx.lenOf(buf, 0))
			c.Decide(rule, fn, fmt.Sprintf("%d-byte access guarded by len>=%d", need, need), x, ok,
				fmt.Sprintf("the %d-byte access is only guarded by len(buf) >= %d: a shorter input panics", need, lb))
		case *ssa.IndexAddr:
			if !isView(x.X) || loopCarriedViewG(x.X) {
				return // an access through a loop-carried cursor is at a variable position: loopIndexAccess
			}
			if k, isC := ir.ConstInt(x.Index); isC {
				lb := lenLowerBound(x.Block(), x.X)
				c.Decide(rule, fn, fmt.Sprintf("buf[%d] guarded", k), x, lb > k, fmt.Sprintf("buf[%d] is only guarded by len(buf) >= %d", k, lb))
			}
		case *ssa.Slice:
			if !isView(x.X) {
				return
			}
			var k int64 = -1
			if x.High != nil {
				if h, isC := ir.ConstInt(x.High); isC {
					k = h
				}
			} else if x.Low != nil {
				if l, isC := ir.ConstInt(x.Low); isC {
					k = l
				}
			}
			if k > 0 {
				lb := lenLowerBound(x.Block(), x.X)
				c.Decide(rule, fn, fmt.Sprintf("buf[..%d] window guarded", k), x, lb >= k, fmt.Sprintf("the constant slice bound %d is only guarded by len(buf) >= %d", k, lb))
			}
		}
	})
}

// loopIndexAccess checks R2 for one function.
func (c *Ctx) loopIndexAccess(rule string, fn *ssa.Function, buf ssa.Value) {
	views := bufViewsG(fn, buf)
	ir.Instrs(fn, func(in ssa.Instruction) {
		x, ok := in.(*ssa.IndexAddr)
		if !ok || !(same(x.X, buf) || views[ir.Resolve(x.X)]) {
			return
		}
		if _, isC := ir.ConstInt(x.Index); isC && !loopCarriedViewG(x.X) {
			return // a constant position: fixedWidthAccess
		}
		// the index is tested against the length of the slice value that is indexed: buf, a window of it, or the cursor
		// that walks it (cursor[0] under len(cursor) != 0 is buf[i] under i != len(buf))
		within, undecided := indexWithinB(ctxAtB(x.Block()), x.Index, x.X)
		if undecided {
			c.Undecided(rule, fn, "buf[i]", x, "the index is not built from a loop variable i=phi(c,i+1), lengths and constants")
			return
		}
		c.Decide(rule, fn, "buf[i] under i<len(buf)", x, within, "the indexed access is not dominated by the test of the index against len(buf)")
	})
}

// ---------------------------------------------------------------------------
// C16

func runC16(c *Ctx) {
	debugDumpB(c, "xbinary", "container", "cast")
	decoders := xbinaryFuncs(c, "Unmarshal")
	if len(decoders) < 7 {
		c.Fatalf("role decoders: expected the 7 exported Unmarshal functions of xbinary, found %d", len(decoders))
	}
	isDecoder := map[*ssa.Function]bool{}
	for _, fn := range decoders {
		isDecoder[fn] = true
		c.Saw(fn)
	}
	// private functions of the package the decoders hand their input (or a window of it) to: the same rules apply to
	// their buffer parameter; one that returns (count, ..., error|ok) is a decoder in its own right (the function that
	// holds the decoding loop behind a thin exported wrapper)
	type helperUse struct {
		fn  *ssa.Function
		buf *ssa.Parameter
	}
	var helpers []helperUse
	seenParam := map[*ssa.Parameter]bool{}
	var collect func(fn *ssa.Function, buf ssa.Value, depth int)
	collect = func(fn *ssa.Function, buf ssa.Value, depth int) {
		if depth > 2 {
			return
		}
		for _, call := range ir.Calls(fn) {
			cal := ir.StaticCallee(call)
			if cal == nil || cal.Pkg != fn.Pkg || len(cal.Blocks) == 0 || isDecoder[cal] || (cal.Object() != nil && cal.Object().Exported()) {
				continue
			}
			for i, a := range call.Common().Args {
				if i >= len(cal.Params) || seenParam[cal.Params[i]] || !same(sliceRoot(a), buf) {
					continue
				}
				if sl, ok := cal.Params[i].Type().Underlying().(*types.Slice); !ok || !types.Identical(sl.Elem(), types.Typ[types.Byte]) {
					continue
				}
				seenParam[cal.Params[i]] = true
				helpers = append(helpers, helperUse{cal, cal.Params[i]})
				collect(cal, cal.Params[i], depth+1)
			}
		}
	}
	for _, fn := range decoders {
		if buf := bufParam(fn, false); buf != nil {
			collect(fn, buf, 0)
		}
	}
	for _, h := range helpers {
		if decoderLikeB(h.fn) && bufParam(h.fn, false) == h.buf {
			isDecoder[h.fn] = true
		}
	}
	for _, fn := range decoders {
		buf := bufParam(fn, false)
		if buf == nil {
			c.Fatalf("decoder %s has no []byte parameter", fn.Name())
		}
		c.fixedWidthAccess("C16.R1", fn, buf)
		c.loopIndexAccess("C16.R2", fn, buf)
		c.wireLengthTaint(fn, buf, isDecoder)
		c.decoderExits(fn, buf, isDecoder)
	}
	for _, h := range helpers {
		c.Saw(h.fn)
		c.fixedWidthAccess("C16.R1", h.fn, h.buf)
		c.loopIndexAccess("C16.R2", h.fn, h.buf)
		c.wireLengthTaint(h.fn, h.buf, isDecoder)
		if isDecoder[h.fn] {
			c.decoderExits(h.fn, h.buf, isDecoder)
		}
	}
	// helpers of other repository packages the decoders call (zero-copy casts, copies): the same guard rule
	seenHelper := map[*ssa.Function]bool{}
	for _, fn := range decoders {
		for _, call := range ir.Calls(fn) {
			cal := ir.StaticCallee(call)
			if cal == nil || len(cal.Blocks) == 0 || isDecoder[cal] || seenHelper[cal] || cal.Pkg == nil || !strings.HasPrefix(cal.Pkg.Pkg.Path(), ir.Module+"/") {
				continue
			}
			if cal.Pkg == c.P.SSAPkg("xbinary") {
				continue
			}
			seenHelper[cal] = true
			c.Saw(cal)
			for _, prm := range cal.Params {
				if _, isSlice := prm.Type().Underlying().(*types.Slice); isSlice {
					c.fixedWidthAccess("C16.R1", cal, prm)
				}
			}
			// a helper without indexed access is fine
			c.Decide("C16.R1", cal, "helper called with decoded data analysed", nil, true, "")
		}
	}
	c.tableIndexInRange("C16.R7", decoders)
	c.shiftCountNonNegXI("C16.R9", append(append([]*ssa.Function{}, decoders...), func() (hs []*ssa.Function) {
		for _, h := range helpers {
			hs = append(hs, h.fn)
		}
		return
	}()...))
	// R8 termination of the decoder loops (v_codec_g_loop.go)
	{
		n := 0
		for _, fn := range decoders {
			n += c.loopsAdvanceCursor(fn, bufParam(fn, false))
		}
		for _, h := range helpers {
			n += c.loopsAdvanceCursor(h.fn, h.buf)
		}
		if n == 0 {
			c.Decide("C16.R8", decoders[0], "every way round the loop advances the input cursor", nil, true, "")
		}
	}
	c.R.Floor("C16.R1", 4)
	c.R.Floor("C16.R2", 1)
	c.R.Floor("C16.R3", 1)
	c.R.Floor("C16.R4", 8)
	c.R.Floor("C16.R5", 2)
	c.R.Floor("C16.R6", 7)
}

// wireLengthTaint is C16.R3.
func (c *Ctx) wireLengthTaint(fn *ssa.Function, buf ssa.Value, isDecoder map[*ssa.Function]bool) {
	// sources: value results (index >=1, integer typed) of calls to decoders; integer results of external
	// decoders (binary.Uvarint value #0)
	tainted := map[ssa.Value]bool{}
	counts := map[ssa.Value]bool{} // consumed counts of callees (bounded by the callee's own R6)
	ir.Instrs(fn, func(in ssa.Instruction) {
		ex, ok := in.(*ssa.Extract)
		if !ok {
			return
		}
		call, ok := ex.Tuple.(*ssa.Call)
		if !ok {
			return
		}
		cal := ir.StaticCallee(call)
		bt, isBasic := ex.Type().Underlying().(*types.Basic)
		if !isBasic || bt.Info()&types.IsInteger == 0 {
			return
		}
		switch {
		case cal != nil && isDecoder[cal]:
			if ex.Index == 0 {
				counts[ex] = true
			} else {
				tainted[ex] = true
			}
		case strings.HasPrefix(ir.CalleeFullName(call), "encoding/binary."):
			if ex.Index == 0 {
				tainted[ex] = true
			}
		}
	})
	// a byte of the input itself, used as a number (a one-byte length header read without the varint decoder). Sums and
	// shifts of single bytes are how a decoder assembles its value and cannot overflow on their own, so for these only
	// the places where the number is used as a bound count (byteTaint: values built from raw bytes only)
	byteTaint := map[ssa.Value]bool{}
	ir.Instrs(fn, func(in ssa.Instruction) {
		ld, ok := in.(*ssa.UnOp)
		if !ok || ld.Op != token.MUL {
			return
		}
		ia, ok := ld.X.(*ssa.IndexAddr)
		if !ok {
			return
		}
		base := ia.X
		for {
			if sl, isSl := base.(*ssa.Slice); isSl {
				base = sl.X
				continue
			}
			break
		}
		if ir.Resolve(base) == ir.Resolve(buf) {
			tainted[ld] = true
			byteTaint[ld] = true
		}
	})
	if len(tainted) == 0 {
		return
	}
	// propagate through conversions and phis (fixed point)
	for changed := true; changed; {
		changed = false
		ir.Instrs(fn, func(in ssa.Instruction) {
			v, ok := in.(ssa.Value)
			if !ok || tainted[v] {
				return
			}
			switch x := in.(type) {
			case *ssa.Convert:
				if tainted[x.X] {
					tainted[v] = true
					changed = true
				}
			case *ssa.ChangeType:
				if tainted[x.X] {
					tainted[v] = true
					changed = true
				}
			case *ssa.Phi:
				for _, e := range x.Edges {
					if tainted[e] {
						tainted[v] = true
						changed = true
					}
				}
			case *ssa.BinOp:
				switch x.Op {
				case token.ADD, token.SUB, token.MUL, token.SHL, token.QUO, token.REM, token.AND, token.OR:
					if tainted[x.X] || tainted[x.Y] {
						tainted[v] = true
						changed = true
					}
				}
			case *ssa.UnOp, *ssa.Field:
				// a wire length kept in a field of a local struct (a parsed header) and read back
				if r := ctxAtB(in.Block()).refine(v); r != v && tainted[r] {
					tainted[v] = true
					changed = true
				}
			}
		})
	}
	for changed := true; changed; {
		changed = false
		ir.Instrs(fn, func(in ssa.Instruction) {
			v, ok := in.(ssa.Value)
			if !ok || byteTaint[v] || !tainted[v] {
				return
			}
			all := true
			any := false
			for _, op := range in.Operands(nil) {
				if *op == nil {
					continue
				}
				if tainted[*op] {
					any = true
					if !byteTaint[*op] {
						all = false
					}
				}
			}
			if any && all {
				byteTaint[v] = true
				changed = true
			}
		})
	}
	var nonNegExpr func(v ssa.Value, d int) bool
	nonNegExpr = func(v ssa.Value, d int) bool {
		if d > 4 {
			return false
		}
		if k, isC := ir.ConstInt(v); isC {
			return k >= 0
		}
		switch x := v.(type) {
		case *ssa.Convert:
			fb, ok1 := x.X.Type().Underlying().(*types.Basic)
			tb, ok2 := x.Type().Underlying().(*types.Basic)
			if ok1 && ok2 && fb.Info()&types.IsUnsigned != 0 && basicBitsB(fb) < basicBitsB(tb) {
				return true // widening of an unsigned value
			}
			if ok1 && fb.Info()&types.IsUnsigned == 0 {
				return nonNegExpr(x.X, d+1)
			}
		case *ssa.BinOp:
			switch x.Op {
			case token.ADD, token.MUL, token.AND, token.OR, token.SHR, token.QUO, token.REM:
				return nonNegExpr(x.X, d+1) && nonNegExpr(x.Y, d+1)
			}
		case *ssa.Phi:
			for _, e := range x.Edges {
				if !nonNegExpr(e, d+1) {
					return false
				}
			}
			return len(x.Edges) > 0
		}
		return false
	}
	// the unsigned ancestor of a converted value
	root := func(v ssa.Value) ssa.Value {
		for {
			if cv, ok := v.(*ssa.Convert); ok {
				v = cv.X
				continue
			}
			return v
		}
	}
	lenDerived := func(v ssa.Value) bool {
		// the backward slice contains len(buf) and no tainted value
		seen := map[ssa.Value]bool{}
		hasLen, hasTaint := false, false
		var rec func(v ssa.Value)
		rec = func(v ssa.Value) {
			if v == nil || seen[v] {
				return
			}
			seen[v] = true
			if tainted[v] {
				hasTaint = true
				return
			}
			if isLenOf(v, buf) {
				hasLen = true
				return
			}
			// the length of a window of buf: len(buf[k:])
			if call, isCall := ir.Resolve(v).(*ssa.Call); isCall {
				if cc := builtinCall(call, "len"); cc != nil && same(sliceRoot(cc.Args[0]), buf) {
					hasLen = true
					if s, isSlice := ir.Resolve(cc.Args[0]).(*ssa.Slice); isSlice {
						for _, b := range []ssa.Value{s.Low, s.High, s.Max} {
							if b != nil && tainted[b] {
								hasTaint = true
							}
						}
					}
					return
				}
			}
			switch x := v.(type) {
			case *ssa.BinOp:
				rec(x.X)
				rec(x.Y)
			case *ssa.Convert:
				rec(x.X)
			case *ssa.Phi:
				for _, e := range x.Edges {
					rec(e)
				}
			}
		}
		rec(v)
		return hasLen && !hasTaint
	}
	isUnsigned := func(t types.Type) bool {
		b, ok := t.Underlying().(*types.Basic)
		return ok && b.Info()&types.IsUnsigned != 0
	}
	bounded := func(v ssa.Value, at *ssa.BasicBlock) bool {
		cx := ctxAtB(at)
		v = cx.refine(v)
		u := root(v)
		upper, nonNeg := false, (isUnsigned(v.Type()) && v == u) || (byteTaint[v] && nonNegExpr(v, 0))
		for _, f := range cx.facts {
			cm, ok := f.Cmp()
			if !ok {
				continue
			}
			op, x, y := cm.Op, cm.X, cm.Y
			// normalise so that x is the tainted side
			match := func(t ssa.Value) bool { return t == v || t == u || sameConversionV(t, v) }
			if !match(x) {
				if !match(y) {
					continue
				}
				x, y = y, x
				op = ir.SwapOp(op)
			}
			if x == u && isUnsigned(u.Type()) && isUnsigned(y.Type()) {
				// unsigned comparison on the original wire value
				if (op == token.LEQ || op == token.LSS || op == token.EQL) && lenDerived(y) {
					upper, nonNeg = true, true
				}
				// u <= K for a constant K that the signed type of v can hold: the conversion keeps the value, so v >= 0
				// (first half of the two-step guard `u > MaxInt || int(u) > rem`, v_codec_guard.go)
				if (op == token.LEQ || op == token.LSS || op == token.EQL) && c.fitsSignedV(y, v, u) {
					nonNeg = true
				}
				continue
			}
			if (x == v || sameConversionV(x, v)) && !isUnsigned(v.Type()) {
				if (op == token.LEQ || op == token.LSS) && lenDerived(y) {
					upper = true
				}
				if k, isC := ir.ConstInt(y); isC {
					if (op == token.GEQ && k >= 0) || (op == token.GTR && k >= -1) {
						nonNeg = true
					}
				}
			}
		}
		return upper && nonNeg
	}
	check := func(in ssa.Instruction, what string, v ssa.Value) {
		if v == nil || !tainted[v] {
			return
		}
		if byteTaint[v] && what == "arithmetic" {
			return
		}
		// a value that is itself the result of arithmetic on tainted operands was reported at that arithmetic
		if bo, ok := v.(*ssa.BinOp); ok && (tainted[bo.X] || tainted[bo.Y]) && !byteTaint[v] {
			return
		}
		// (an offset that a private decoder has bounded within the buffer it was given, used on that buffer: v_codec_u_batch.go)
		c.Decide("C16.R3", fn, what+" on wire length", in, bounded(v, in.Block()) || c.offsetUseV(in, v, buf),
			"a length taken from the input reaches "+what+" without a guard that bounds it against the remaining input (unsigned compare with a len(buf)-derived operand, or sign test + signed bound): a crafted prefix overflows/slices out of range")
	}
	ir.Instrs(fn, func(in ssa.Instruction) {
		switch x := in.(type) {
		case *ssa.BinOp:
			switch x.Op {
			case token.ADD, token.SUB, token.MUL, token.SHL:
				check(in, "arithmetic", x.X)
				check(in, "arithmetic", x.Y)
			}
		case *ssa.Slice:
			check(in, "slice bound", x.Low)
			check(in, "slice bound", x.High)
			check(in, "slice bound", x.Max)
			c.sliceRemaining(fn, x, tainted, buf)
			// a bound that is arithmetic on tainted values: its operands were checked above
		case *ssa.IndexAddr:
			check(in, "index", x.Index)
		case *ssa.Index:
			check(in, "index", x.Index)
		case *ssa.MakeSlice:
			check(in, "make size", x.Len)
			check(in, "make size", x.Cap)
		}
	})
}

// statusIndexB returns the index of the result through which fn reports failure: its last error result, or - for private
// helpers - a trailing boolean "ok" result; -1 when there is none.
func statusIndexB(fn *ssa.Function) int {
	if i := ir.ErrResultIndex(fn); i >= 0 {
		return i
	}
	rs := fn.Signature.Results()
	if n := rs.Len(); n > 0 {
		if b, ok := rs.At(n - 1).Type().Underlying().(*types.Basic); ok && b.Kind() == types.Bool {
			return n - 1
		}
	}
	return -1
}

// decoderLikeB: fn returns (consumed count, ..., error|ok) and reads a []byte parameter that comes first.
func decoderLikeB(fn *ssa.Function) bool {
	rs := fn.Signature.Results()
	if rs.Len() < 2 || !isIntTypeB(rs.At(0).Type()) || statusIndexB(fn) != rs.Len()-1 {
		return false
	}
	return bufParam(fn, false) != nil
}

// decBufArgB returns the argument a call of a decoder passes as the input buffer.
func decBufArgB(call *ssa.Call) ssa.Value {
	cal := ir.StaticCallee(call)
	if cal == nil {
		return nil
	}
	bp := bufParam(cal, false)
	for i, p := range cal.Params {
		if p == bp && i < len(call.Call.Args) {
			return call.Call.Args[i]
		}
	}
	return nil
}

// decoderExits is C16.R4, R5, R6. The exits are the exit points of the function: one per return statement, or - for the
// single-exit style with result variables - one per alternative merged into the return.
func (c *Ctx) decoderExits(fn *ssa.Function, buf ssa.Value, isDecoder map[*ssa.Function]bool) {
	errIdx := statusIndexB(fn)
	if errIdx < 0 {
		c.Fatalf("decoder %s has no error result", fn.Name())
	}
	for _, ep := range exitsOfB(fn) {
		cx := ctxOfB(ep.Facts)
		ret := ep.Ret
		errV := cx.refine(ep.Result(errIdx))
		cnt := cx.refine(ep.Result(0))
		calleeOf := func(v ssa.Value, idx int) *ssa.Call {
			ex, ok := cx.refine(v).(*ssa.Extract)
			if !ok || ex.Index != idx {
				return nil
			}
			call, _ := ex.Tuple.(*ssa.Call)
			return call
		}
		switch exitClassB(fn, ep) {
		case ir.ErrNonNil:
			ok := false
			if k, isC := ir.ConstInt(cnt); isC && k == 0 {
				ok = true
			}
			if call := calleeOf(cnt, 0); call != nil && isDecoder[ir.StaticCallee(call)] {
				if ec := calleeOf(errV, statusIndexB(ir.StaticCallee(call))); ec == call && ir.ErrResultIndex(ir.StaticCallee(call)) >= 0 {
					ok = true
				}
			}
			c.Decide("C16.R4", fn, "failure exit reports 0 consumed", ret, ok, "a failing decoder reports a non-zero consumed length")
		case ir.ErrUnknown:
			// "return decode(buf)": count and status of one call of a decoder applied to the same input are handed on; both
			// exits are that decoder's (R4 and R6 hold for it), whichever it takes
			if call := calleeOf(cnt, 0); call != nil && isDecoder[ir.StaticCallee(call)] && same(decBufArgB(call), buf) {
				if ec := calleeOf(errV, statusIndexB(ir.StaticCallee(call))); ec == call {
					c.Decide("C16.R4", fn, "failure exit reports 0 consumed", ret, true, "")
					c.Decide("C16.R6", fn, "success exit consumed count within input", ret, true, "")
					for i := 1; i < errIdx; i++ {
						if rv := cx.refine(ep.Result(i)); rv != nil && isByteSeqB(rv.Type()) {
							ok, why := c.fromInput(cx, rv, buf, isDecoder, 0)
							c.Decide("C16.R5", fn, "result derives from the input", ret, ok, why)
						}
					}
					continue
				}
			}
			c.Undecided("C16.R4", fn, "exit class", ret, "cannot classify the returned error as nil or non-nil")
		case ir.ErrNil:
			// R6 success count
			c.successCount(fn, ep, cx, cnt, buf, isDecoder)
			// R5 provenance of slice/string results
			for i := 1; i < errIdx; i++ {
				rv := cx.refine(ep.Result(i))
				if rv == nil {
					continue
				}
				switch u := rv.Type().Underlying().(type) {
				case *types.Slice:
					ok, why := c.fromInput(cx, rv, buf, isDecoder, 0)
					c.Decide("C16.R5", fn, "result derives from the input", ret, ok, why)
				case *types.Basic:
					if u.Kind() == types.String {
						ok, why := c.fromInput(cx, rv, buf, isDecoder, 0)
						c.Decide("C16.R5", fn, "result derives from the input", ret, ok, why)
					}
				}
			}
		}
	}
}

// alwaysNonNilError reports whether every return of fn yields a fresh error (fmt.Errorf/errors.New).
func alwaysNonNilError(fn *ssa.Function) bool {
	if len(fn.Blocks) == 0 {
		return false
	}
	idx := ir.ErrResultIndex(fn)
	if idx < 0 {
		return false
	}
	rets := ir.Returns(fn)
	if len(rets) == 0 {
		return false
	}
	for _, r := range rets {
		if ir.ClassifyErr(ir.ResultValue(r, idx), r.Block()) != ir.ErrNonNil {
			return false
		}
	}
	return true
}

// copySourcesB returns the source operands of the copy() calls that fill the made slice m (nil when it is written in any
// other way the rule does not follow).
func copySourcesB(m *ssa.MakeSlice) []ssa.Value {
	var srcs []ssa.Value
	ir.Instrs(m.Parent(), func(in ssa.Instruction) {
		if cc := builtinCall(in, "copy"); cc != nil && ir.Resolve(cc.Args[0]) == ssa.Value(m) {
			srcs = append(srcs, cc.Args[1])
		}
	})
	return srcs
}

func (c *Ctx) fromInput(cx *linCtxB, v ssa.Value, buf ssa.Value, isDecoder map[*ssa.Function]bool, depth int) (bool, string) {
	if depth > 6 {
		return false, "provenance too deep"
	}
	if ok, why, handled := c.appendedFromInputV(cx.refine(v), func(el ssa.Value) (bool, string) { return c.fromInput(cx, el, buf, isDecoder, depth+1) }); handled {
		return ok, why // a list of values grown by append (v_codec_u_batch.go)
	}
	for _, o := range ir.Origins(cx.refine(v)) {
		switch x := o.(type) {
		case *ssa.Slice:
			if !same(sliceRoot(x), buf) {
				// a window of a local copy
				if ok, why := c.fromInput(cx, sliceRoot(x), buf, isDecoder, depth+1); !ok {
					return false, why
				}
			}
		case *ssa.Call:
			name := ir.CalleeFullName(x)
			switch {
			case strings.HasSuffix(name, "container.SliceCopy"), strings.HasSuffix(name, "cast.ByteArrayToString"), strings.HasSuffix(name, "cast.StringToByteArray"):
				if ok, why := c.fromInput(cx, x.Call.Args[0], buf, isDecoder, depth+1); !ok {
					return false, why
				}
			default:
				return false, "the returned data comes from " + name
			}
		case *ssa.MakeSlice:
			// a local copy: make + copy(made, part of the input)
			srcs := copySourcesB(x)
			if len(srcs) == 0 {
				return false, "the returned slice is freshly made and not filled from the input"
			}
			for _, src := range srcs {
				if ok, why := c.fromInput(cx, src, buf, isDecoder, depth+1); !ok {
					return false, why
				}
			}
		case *ssa.Extract:
			call, ok := x.Tuple.(*ssa.Call)
			if !ok || !isDecoder[ir.StaticCallee(call)] || !same(decBufArgB(call), buf) {
				return false, "the returned data is not produced by a decoder applied to the input"
			}
		case *ssa.Const:
			// nil / "" on degenerate paths
		case *ssa.Parameter:
			if !same(x, buf) {
				return false, "the returned data is another parameter"
			}
		case *ssa.Convert:
			if ok, why := c.fromInput(cx, x.X, buf, isDecoder, depth+1); !ok {
				return false, why
			}
		default:
			return false, "unrecognised origin " + o.String()
		}
	}
	return true, ""
}

// successCount is C16.R6.
func (c *Ctx) successCount(fn *ssa.Function, ep exitB, cx *linCtxB, cnt ssa.Value, buf ssa.Value, isDecoder map[*ssa.Function]bool) {
	ret := ep.Ret
	cnt = cx.refine(cnt)
	rule, what := "C16.R6", "success exit consumed count within input"
	if k, isC := ir.ConstInt(cnt); isC {
		lb := cx.lenAtLeast(buf)
		c.Decide(rule, fn, what, ret, k >= 0 && lb >= k, fmt.Sprintf("the constant count %d is not covered by the length guard (len(buf) >= %d)", k, lb))
		return
	}
	if ex, ok := cnt.(*ssa.Extract); ok {
		if call, ok := ex.Tuple.(*ssa.Call); ok && (ex.Index == 0 || c.boundedResultV(ir.StaticCallee(call), ex.Index)) {
			if isDecoder[ir.StaticCallee(call)] && same(decBufArgB(call), buf) {
				c.Decide(rule, fn, what, ret, true, "")
				return
			}
		}
	}
	if c.runningOffsetV(cnt, buf, fn.Pkg) { // a running offset fed by decoders applied to buf[offset:] (v_codec_u_batch.go)
		c.Decide(rule, fn, what, ret, true, "")
		return
	}
	if ex, ok := cnt.(*ssa.Extract); ok {
		if call, ok := ex.Tuple.(*ssa.Call); ok && strings.HasPrefix(ir.CalleeFullName(call), "encoding/binary.") && ex.Index == 1 {
			pos := false
			for _, f := range cx.facts {
				cm, isCmp := f.Cmp()
				if !isCmp {
					continue
				}
				op, x, y := cm.Op, cm.X, cm.Y
				if x != ssa.Value(ex) {
					if y != ssa.Value(ex) {
						continue
					}
					x, y = y, x
					op = ir.SwapOp(op)
				}
				if k, isC := ir.ConstInt(y); isC && ((op == token.GTR && k >= 0) || (op == token.GEQ && k >= 1)) {
					pos = true
				}
			}
			c.Decide(rule, fn, what, ret, pos, "the count returned by "+ir.CalleeFullName(call)+" can be negative (overflow) or zero and is passed on as a successful consumed length")
			return
		}
	}
	if lo, hi, usesBits, ok := bitCountIntervalV(cnt, 0); ok && usesBits { // a count found by bit counting (v_codec_h_count.go)
		lb := cx.lenAtLeast(buf)
		c.Decide(rule, fn, what, ret, lo >= 0 && hi <= lb,
			fmt.Sprintf("the consumed count is computed with a math/bits counting function and ranges over [%d,%d], but the guards of this exit only give len(buf) >= %d: for an input without the bit pattern the count is looking for, a count beyond the input is reported as success", lo, hi, lb))
		return
	}
	total := cx.of(cnt)
	// the count is the end offset of a window that was cut from buf on the way to this exit: its parts are bounded by R3
	// where the window is cut, the slice expression's own run-time check cannot fire there
	okWindow := false
	ir.Instrs(fn, func(in ssa.Instruction) {
		s, ok := in.(*ssa.Slice)
		if !ok || okWindow || !(s.Block() == ep.Block || s.Block().Dominates(ep.Block) || s.Block() == ret.Block() || s.Block().Dominates(ret.Block())) {
			return
		}
		root, _, hi := cx.sliceExtent(s)
		if !same(root, buf) {
			return
		}
		if _, isC := hi.isConst(); isC {
			return
		}
		if key, _, single := hi.single(); single && strings.HasPrefix(key, "len:") {
			return // "the rest of buf" says nothing about the count
		}
		if hi.equal(total) {
			okWindow = true
		}
	})
	if okWindow {
		c.Decide(rule, fn, what, ret, true, "")
		return
	}
	// otherwise the guard facts (and the invariants of the loop variables) must place it within [0, len(buf)]
	if lb, known := cx.lowerBound(total); known {
		within := lb >= 0 && cx.impliesLE(total, cx.lenOf(buf, 0))
		detail := "the consumed count (index+1) is returned on a path where it is not bounded by the test of the index against len(buf)"
		c.Decide(rule, fn, what, ret, within, detail)
		return
	}
	// a count with subtracted lengths (len(buf) - len(rest) of a shrinking cursor): no constant lower bound exists, the
	// facts and the cursor invariant len(rest) <= len(buf) must place it at or above 0 - and then also within len(buf)
	if cx.impliesLE(linConstB(0), total) {
		c.Decide(rule, fn, what, ret, cx.impliesLE(total, cx.lenOf(buf, 0)),
			"the consumed count (input length minus what the cursor has left) is returned on a path where it is not bounded by len(buf)")
		return
	}
	c.Undecided(rule, fn, what, ret, "unrecognised form of the consumed count: "+cnt.String())
}

// ---------------------------------------------------------------------------
// C15

func runC15(c *Ctx) {
	debugDumpB(c, "xbinary", "container", "cast")
	c.sizeTree()
	c.groupConstants()
	c.fixedWidthSiblings()
	c.oneEncoder()
	c.independentCopy()
	c.tightSizeGuards()
	c.writerErrorsReported()
	c.scratchNotTouchedAfterRelease()
	c.writesToCurrentDestination() // S12 (v_codec_writer.go)
	c.decodersAcceptEveryBody()    // S13 (v_codec_domain.go)
	c.zeroCountIsFailure()         // S14 (v_codec_g_exits.go)
	c.lengthRejectionsAreStrict()  // S15 (v_codec_g_exits.go)
	c.encodersStayInsideLen()      // S16 (v_codec_h_dest.go)
	// S7 short buffer is an error
	handedTo := map[*ssa.Parameter]bool{}
	for _, fn := range xbinaryFuncs(c, "Marshal") {
		buf := bufParam(fn, true)
		if buf == nil {
			continue
		}
		c.Saw(fn)
		c.fixedWidthAccess("C15.S7", fn, buf)
		c.loopIndexAccess("C15.S7", fn, buf)
		// the stores may be made by a private function of the package the buffer (or a window of it) is handed to
		for _, call := range ir.Calls(fn) {
			cal := ir.StaticCallee(call)
			if cal == nil || cal.Pkg != fn.Pkg || len(cal.Blocks) == 0 || (cal.Object() != nil && cal.Object().Exported()) {
				continue
			}
			for i, a := range call.Common().Args {
				if i < len(cal.Params) && same(sliceRoot(a), buf) && !handedTo[cal.Params[i]] {
					handedTo[cal.Params[i]] = true
					c.Saw(cal)
					c.fixedWidthAccess("C15.S7", cal, cal.Params[i])
					c.loopIndexAccess("C15.S7", cal, cal.Params[i])
				}
			}
		}
	}
	// copies inside the codec: the destination is sliced to exactly len(src), so a short buffer fails (bounds
	// check / explicit guard) instead of truncating the value silently
	for _, fn := range c.P.FuncsOf("xbinary") {
		ir.Instrs(fn, func(in ssa.Instruction) {
			cc := builtinCall(in, "copy")
			if cc == nil {
				return
			}
			// dst has exactly len(src) elements (x[:len(src)], x[lo:lo+len(src)], make(len(src))), or the guard facts
			// say that this very destination is not shorter than src: either way copy() moves all of src or fails first
			cx := ctxAtB(in.Block())
			ld, ls := cx.lenOf(cc.Args[0], 0), cx.lenOf(cc.Args[1], 0)
			exact := ld.equal(ls)
			if !exact {
				if _, isC := ld.isConst(); !isC {
					exact = cx.impliesLE(ls, ld)
				}
			}
			c.Saw(fn)
			c.Decide("C15.S7", fn, "copy destination has exactly len(src) elements", in, exact,
				"the destination of copy() is not sliced to exactly len(src): with a short (or just too small) buffer the body is truncated silently instead of failing, and the bytes written no longer match the predicted size")
		})
	}
	c.R.Floor("C15.S7", 6)
	c.decoderRejections()
}

// fnHasLoopB reports whether fn contains a loop.
func fnHasLoopB(fn *ssa.Function) bool {
	for _, b := range fn.Blocks {
		if isLoopHeaderB(b) {
			return true
		}
	}
	return false
}

// loopImplB resolves the role "the function that holds the coding loop of fn": fn itself when it loops; otherwise the
// one function of the package with a loop that fn calls with its own buffer parameter (a thin exported wrapper that
// translates the helper's ok/err; other callers - the stream writer - may use the helper directly). The helper is
// claimed as a role, so the normal form keeps it a function. Returns fn when there is no such helper.
func (c *Ctx) loopImplB(fn *ssa.Function, last bool) (impl *ssa.Function, via *ssa.Call) {
	if fnHasLoopB(fn) {
		return fn, nil
	}
	buf := bufParam(fn, last)
	var found *ssa.Function
	var call *ssa.Call
	n := 0
	ir.Instrs(fn, func(in ssa.Instruction) {
		cl, ok := in.(*ssa.Call)
		if !ok {
			return
		}
		cal := ir.StaticCallee(cl)
		if cal == nil || cal.Pkg != fn.Pkg || len(cal.Blocks) == 0 || !fnHasLoopB(cal) {
			return
		}
		for _, a := range cl.Call.Args {
			if buf != nil && same(a, buf) {
				found, call = cal, cl
				n++
			}
		}
	})
	if n != 1 {
		return fn, nil
	}
	c.Role("coding loop of "+fn.Name(), relName(found), found.Pos())
	c.Saw(found)
	return found, call
}

// sizeTree is C15.S2.
func (c *Ctx) sizeTree() {
	fn := c.RequireFn(c.P.Func("xbinary", "WritableUintSize"), "xbinary.WritableUintSize")
	if len(fn.Params) != 1 {
		c.Fatalf("WritableUintSize: unexpected signature")
	}
	// discipline: the argument is only compared with values that do not depend on it (constants, elements of a constant
	// table), here or in the private functions it is handed to. Then the result is constant between two neighbouring
	// values it is compared with, and evaluating at every such value and its neighbours is exhaustive.
	if ok, why := comparedOnlyB(fn, 0, fn.Pkg, map[*ssa.Function]map[int]bool{}); !ok {
		// not a comparison tree: fall back to an interval analysis of the result. It cannot prove agreement with the
		// encoder, but a result interval that reaches below 1 or above 10 is a definite disagreement.
		lo, hi, okIv := resultInterval(fn)
		if okIv && (lo < 1 || hi > 10) {
			c.Decide("C15.S2", fn, "size function result within [1,10]", nil, false,
				fmt.Sprintf("the size function can return %d..%d: the varint encoder always writes between 1 and 10 bytes (e.g. 1 byte for the value 0)", lo, hi))
			return
		}
		c.Undecided("C15.S2", fn, "size decision tree", nil, "the body is not a comparison tree over the argument: "+why)
		return
	}
	// abstract interpretation of the size function with the argument as an interval, refined until the outcome of
	// every comparison is the same for the whole interval: the cells partition [0,2^64) and the result is one constant
	// per cell. The encoder writes ceil(bitlen/7) bytes (1 for the value 0), which is monotone in the argument, so a
	// cell agrees with it iff it does at both end points of the cell.
	max64 := new(big.Int).Sub(new(big.Int).Lsh(big.NewInt(1), 64), big.NewInt(1))
	want := func(p *big.Int) int64 {
		w := int64((p.BitLen() + 6) / 7)
		if w == 0 {
			w = 1
		}
		return w
	}
	type cellB struct{ lo, hi *big.Int }
	work := []cellB{{big.NewInt(0), max64}}
	pi := &pureInterpB{c: c, pkg: fn.Pkg, globals: map[*ssa.Global]*pureCellB{}}
	cells, bad := 0, ""
	for len(work) > 0 {
		cl := work[0]
		work = work[1:]
		if cells+len(work) > 4096 {
			c.Undecided("C15.S2", fn, "size decision tree", nil, "the partition of the argument's range does not stabilise")
			return
		}
		pi.steps, pi.split, pi.why = 0, nil, ""
		rv, ok := pi.run(fn, []pureValB{{k: 'v', i: cl.lo, hi: cl.hi}}, []bool{true}, 0)
		if !ok && pi.split != nil {
			if pi.split.Cmp(cl.lo) <= 0 || pi.split.Cmp(cl.hi) > 0 {
				c.Undecided("C15.S2", fn, "size decision tree", nil, "internal: split point outside the cell")
				return
			}
			work = append(work, cellB{cl.lo, new(big.Int).Sub(pi.split, big.NewInt(1))}, cellB{new(big.Int).Set(pi.split), cl.hi})
			continue
		}
		if !ok || rv.k != 'i' || !rv.i.IsInt64() {
			c.Undecided("C15.S2", fn, "size decision tree", nil, "cannot evaluate the size function on ["+cl.lo.String()+","+cl.hi.String()+"]: "+pi.why)
			return
		}
		cells++
		for _, p := range []*big.Int{cl.lo, cl.hi} {
			if g := rv.i.Int64(); g != want(p) && bad == "" {
				bad = fmt.Sprintf("WritableUintSize(v) = %d for every v in [%s,%s], but the varint encoder emits %d bytes for %s (bit length %d)", g, cl.lo, cl.hi, want(p), p, p.BitLen())
			}
		}
	}
	c.Decide("C15.S2", fn, fmt.Sprintf("partition of [0,2^64) into %d cells on which the result is constant", cells), nil, bad == "", bad)
}

// contTestB reads a comparison as a test of a value against the continuation threshold: "subject >= T" (more = true) or
// "subject < T" (more = false). x > k, x >= k, x <= k, x < k with a constant k; and the bit test x&K == 0 / != 0 of an
// 8-bit value, which for K = 128 is x < 128 / x >= 128 (for another K the bit tested is reported as T = K).
func contTestB(cm ir.Cmp) (subject ssa.Value, more bool, T int64, ok bool) {
	op, x, y := cm.Op, cm.X, cm.Y
	if _, isC := ir.ConstInt(y); !isC {
		x, y = y, x
		op = ir.SwapOp(op)
	}
	k, isC := ir.ConstInt(y)
	if !isC {
		return nil, false, 0, false
	}
	switch op {
	case token.GTR:
		return x, true, k + 1, true
	case token.GEQ:
		return x, true, k, true
	case token.LEQ:
		return x, false, k + 1, true
	case token.LSS:
		return x, false, k, true
	case token.EQL, token.NEQ:
		if and, isAnd := x.(*ssa.BinOp); isAnd && and.Op == token.AND && k == 0 {
			s, K := and.X, and.Y
			if _, isK := ir.ConstInt(K); !isK {
				s, K = K, s
			}
			if kk, isK := ir.ConstInt(K); isK && is8BitB(s.Type()) {
				return s, op == token.NEQ, kk, true
			}
		}
	}
	return nil, false, 0, false
}

func is8BitB(t types.Type) bool {
	b, ok := t.Underlying().(*types.Basic)
	return ok && (b.Kind() == types.Uint8 || b.Kind() == types.Int8)
}

// onlyZeroTestedB: every use of v is a comparison with the constant 0 (v is a bit test, not a payload).
func onlyZeroTestedB(v *ssa.BinOp) bool {
	refs := v.Referrers()
	if refs == nil || len(*refs) == 0 {
		return false
	}
	for _, r := range *refs {
		if _, isDbg := r.(*ssa.DebugRef); isDbg {
			continue
		}
		b, ok := r.(*ssa.BinOp)
		if !ok || (b.Op != token.EQL && b.Op != token.NEQ) {
			return false
		}
		other := b.Y
		if other == ssa.Value(v) {
			other = b.X
		}
		if k, isC := ir.ConstInt(other); !isC || k != 0 {
			return false
		}
	}
	return true
}

// shiftStepB: by how much the shift count y grows from one loop iteration to the next: an accumulator phi(c, phi+k), or
// k * (loop variable with step s).
func shiftStepB(y ssa.Value) (step int64, at ssa.Instruction, ok bool) {
	strip := func(v ssa.Value) ssa.Value {
		for {
			v = ir.Resolve(v)
			if cv, isCv := v.(*ssa.Convert); isCv {
				v = cv.X
				continue
			}
			return v
		}
	}
	y = strip(y)
	// the accumulator kept in a field of a local struct that had its address taken (a small value type with a
	// pointer-receiver step method, inlined): every store in the loop adds the same constant to the field
	if st, add, isMem := memAccumStepG(y); isMem {
		return st, add, true
	}
	if p, _, st, isInd := inductionVar(y); isInd {
		for _, e := range p.Edges {
			if bo, isBin := e.(*ssa.BinOp); isBin {
				return st, bo, true
			}
		}
		return st, p, true
	}
	if bo, isBin := y.(*ssa.BinOp); isBin && bo.Op == token.MUL {
		a, b := strip(bo.X), strip(bo.Y)
		if _, isC := ir.ConstInt(a); !isC {
			a, b = b, a
		}
		if k, isC := ir.ConstInt(a); isC {
			if _, _, st, isInd := affineIndB(b); isInd {
				return k * st, bo, true
			}
		}
	}
	if bo, isBin := y.(*ssa.BinOp); isBin && bo.Op == token.ADD {
		// accumulator read after its increment: (phi + k) with phi = phi(c, phi + k)
		if p, _, st, isInd := inductionVar(strip(bo.X)); isInd && p != nil {
			return st, bo, true
		}
	}
	return 0, nil, false
}

// groupConstants is C15.S3.
func (c *Ctx) groupConstants() {
	enc := c.RequireFn(c.P.Func("xbinary", "MarshalUint"), "xbinary.MarshalUint")
	enc, _ = c.loopImplB(enc, true)
	decAPI := c.RequireFn(c.P.Func("xbinary", "UnmarshalUint"), "xbinary.UnmarshalUint")
	dec, decVia := c.loopImplB(decAPI, false)
	if dec != decAPI && decVia != nil {
		// the exported decoder only wraps the function holding the loop: it must hand on its count and value
		okWrap := same(decBufArgB(decVia), bufParam(decAPI, false))
		for _, ep := range exitsOfB(decAPI) {
			if exitClassB(decAPI, ep) != ir.ErrNil {
				continue
			}
			cx := ctxOfB(ep.Facts)
			for i := 0; i < 2; i++ {
				ex, isEx := cx.refine(ep.Result(i)).(*ssa.Extract)
				if !isEx || ex.Tuple != ssa.Value(decVia) || ex.Index != i {
					okWrap = false
				}
			}
		}
		c.Decide("C15.S3", decAPI, "wraps the function holding the decoding loop: its count and value", decVia, okWrap, "UnmarshalUint does not return the count and the value of the decoder it wraps")
	}
	const g = 7
	mask, flag := int64(1<<g-1), int64(1<<g)
	type found struct {
		name string
		in   ssa.Instruction
		got  int64
		want int64
	}
	var fs []found
	constOf := func(b *ssa.BinOp) (int64, bool) {
		if k, ok := ir.ConstInt(b.Y); ok {
			return k, true
		}
		return ir.ConstInt(b.X)
	}
	scan := func(fn *ssa.Function, side string) {
		stepSeen := map[ssa.Instruction]bool{}
		ir.Instrs(fn, func(in ssa.Instruction) {
			b, ok := in.(*ssa.BinOp)
			if !ok {
				return
			}
			k, isC := constOf(b)
			switch b.Op {
			case token.AND:
				if isC && !onlyZeroTestedB(b) {
					fs = append(fs, found{side + " payload mask", in, k, mask})
				}
			case token.OR:
				if isC {
					fs = append(fs, found{side + " continuation flag", in, k, flag})
				}
			case token.SHR:
				if isC {
					fs = append(fs, found{side + " group shift", in, k, g})
				}
			case token.SHL:
				// the shift count of the decoder: an accumulator, or a multiple of the loop variable
				if _, isConstCount := ir.ConstInt(b.Y); !isConstCount {
					if st, at, okStep := shiftStepB(b.Y); okStep && !stepSeen[at] {
						stepSeen[at] = true
						fs = append(fs, found{side + " shift step", at, st, g})
					}
				}
			case token.GTR, token.LEQ, token.LSS, token.GEQ, token.EQL, token.NEQ:
				cm, _ := ir.AsCmp(b)
				subject, _, T, isTest := contTestB(cm)
				if !isTest {
					return
				}
				if b.Op == token.EQL || b.Op == token.NEQ {
					// only the bit test form
					if _, isAnd := b.X.(*ssa.BinOp); !isAnd {
						if _, isAnd2 := b.Y.(*ssa.BinOp); !isAnd2 {
							return
						}
					}
				} else {
					if !isC {
						return
					}
					if _, isLen := ir.Resolve(b.Y).(*ssa.Call); isLen {
						return
					}
				}
				// the value (encoder) or the byte (decoder): a loop variable or a loaded element
				if _, isPhi := subject.(*ssa.Phi); !isPhi {
					if _, isLoad := subject.(*ssa.UnOp); !isLoad {
						return
					}
				}
				if bt, ok := subject.Type().Underlying().(*types.Basic); ok && bt.Info()&types.IsUnsigned != 0 {
					fs = append(fs, found{side + " continuation threshold", in, T, flag})
				}
			}
		})
	}
	scan(enc, "encoder")
	scan(dec, "decoder")
	seen := map[string]bool{}
	for _, f := range fs {
		seen[f.name] = true
		fn := enc
		if strings.HasPrefix(f.name, "decoder") {
			fn = dec
		}
		c.Decide("C15.S3", fn, f.name, f.in, f.got == f.want, fmt.Sprintf("%s is %d, the 7-bit group coding needs %d: encoder and decoder (and the size table) disagree", f.name, f.got, f.want))
	}
	for _, need := range []string{"encoder payload mask", "encoder continuation flag", "encoder group shift", "encoder continuation threshold",
		"decoder payload mask", "decoder shift step", "decoder continuation threshold"} {
		if !seen[need] {
			c.Undecided("C15.S3", nil, need, nil, "the "+need+" was not found: the varint coder changed shape")
		}
	}
	// polarity: the flag is OR-ed in exactly on the continue edge; the decoder returns on the stop edge
	hasTest := func(facts []ir.Fact, more bool) bool {
		for _, f := range facts {
			if cm, ok := f.Cmp(); ok {
				if _, m, T, isTest := contTestB(cm); isTest && m == more && T == flag {
					return true
				}
			}
		}
		return false
	}
	ir.Instrs(enc, func(in ssa.Instruction) {
		b, ok := in.(*ssa.BinOp)
		if !ok || b.Op != token.OR {
			return
		}
		c.Decide("C15.S3", enc, "flag set iff more groups follow", in, hasTest(ctxAtB(b.Block()).facts, true), "the continuation flag is not set on the v >= 128 edge")
	})
	byRet := map[*ssa.Return]bool{}
	var order []*ssa.Return
	for _, ep := range exitsOfB(dec) {
		if exitClassB(dec, ep) != ir.ErrNil {
			continue
		}
		okEp := hasTest(ctxOfB(ep.Facts).facts, false)
		if prev, dup := byRet[ep.Ret]; dup {
			byRet[ep.Ret] = prev && okEp
		} else {
			byRet[ep.Ret] = okEp
			order = append(order, ep.Ret)
		}
	}
	for _, ret := range order {
		c.Decide("C15.S3", dec, "decoder stops iff flag clear", ret, byRet[ret], "the decoder's success exit is not on the b < 128 edge")
	}
	c.R.Floor("C15.S3", 9)
}

// decoderRejections is C15.S8.
func (c *Ctx) decoderRejections() {
	dec := c.RequireFn(c.P.Func("xbinary", "UnmarshalUint"), "xbinary.UnmarshalUint")
	dec, _ = c.loopImplB(dec, false)
	buf := bufParam(dec, false)
	// number of groups an encoder can produce for the decoder's result type
	bits := int64(64)
	if rs := dec.Signature.Results(); rs.Len() >= 2 {
		if sz := c.P.Pkgs[0].TypesSizes; sz != nil {
			bits = sz.Sizeof(rs.At(1).Type()) * 8
		}
	}
	groups := (bits + 6) / 7
	n := 0
	for _, ep := range exitsOfB(dec) {
		if exitClassB(dec, ep) == ir.ErrNil {
			continue
		}
		ret := ep.Ret
		n++
		cx := ctxOfB(ep.Facts)
		// exhausted input: the position reached len(buf), or buf is empty
		exhausted := false
		L := cx.lenOf(buf, 0)
		for _, f := range cx.facts {
			cm, isCmp := f.Cmp()
			if !isCmp || !isIntTypeB(cm.X.Type()) {
				continue
			}
			if cx.emptyCursorFactG(cm, buf) {
				exhausted = true // the cursor that walks buf has nothing left
				continue
			}
			op, x, y := cm.Op, cm.X, cm.Y
			if cx.of(x).equal(L) {
				x, y = y, x
				op = ir.SwapOp(op)
			}
			if !cx.of(y).equal(L) {
				if k, isC := ir.ConstInt(y); isC && k == 0 && cx.of(x).equal(L) && op == token.EQL {
					exhausted = true
				}
				continue
			}
			if k, isC := ir.ConstInt(x); isC && k == 0 && op == token.EQL {
				exhausted = true
			}
			if _, _, _, isInd := affineIndB(x); isInd && (op == token.EQL || op == token.GEQ) {
				exhausted = true
			}
		}
		if exhausted {
			c.Decide("C15.S8", dec, "rejection on exhausted input", ret, true, "")
			continue
		}
		// a counter guard: find the comparison fact of an induction variable (or var+step) against a constant
		afterCont := false
		for _, f := range cx.facts {
			if cm, ok := f.Cmp(); ok {
				if s, more, T, isTest := contTestB(cm); isTest && more && T == 128 {
					if _, isLoad := s.(*ssa.UnOp); isLoad {
						afterCont = true
					}
				}
			}
		}
		decided := false
		for _, f := range cx.facts {
			cm, ok := f.Cmp()
			if !ok {
				continue
			}
			op, x, y := cm.Op, cm.X, cm.Y
			if _, isC := ir.ConstInt(y); !isC {
				x, y = y, x
				op = ir.SwapOp(op)
			}
			k, isC := ir.ConstInt(y)
			if !isC {
				continue
			}
			// value of x at iteration i (0-based group index): first + i*step
			_, first, step, isInd := affineIndB(x)
			if !isInd || step == 0 {
				continue
			}
			// is the guard evaluated after the continuation test of group i (then groups 0..G-2 must pass)
			// or before reading group i (then 0..G-1 must pass)?
			lastIter := groups - 1
			if afterCont {
				lastIter = groups - 2
			}
			fires := int64(-1)
			for i := int64(0); i <= lastIter; i++ {
				val := first + i*step
				var hit bool
				switch op {
				case token.GEQ:
					hit = val >= k
				case token.GTR:
					hit = val > k
				case token.EQL:
					hit = val == k
				case token.LSS:
					hit = val < k
				case token.LEQ:
					hit = val <= k
				case token.NEQ:
					hit = val != k
				}
				if hit {
					fires = i
					break
				}
			}
			decided = true
			c.Decide("C15.S8", dec, "counter guard admits every encodable value", ret, fires < 0,
				fmt.Sprintf("the decoder rejects at group %d although the encoder emits up to %d groups for a %d-bit value: decode(encode(x)) fails for large x", fires, groups, bits))
			break
		}
		if !decided {
			c.Undecided("C15.S8", dec, "decoder rejection", ret, "a failure exit of the varint decoder is neither the exhausted-input test nor a recognisable counter guard")
		}
	}
	if n == 0 {
		c.Decide("C15.S8", dec, "decoder has a failure exit", nil, false, "the varint decoder never fails: truncated input cannot be reported")
	}
}

// codingCallB finds the call of the encoding/binary accessor `want` in fn. status: "" found; "other" - fn uses a different
// accessor of encoding/binary (a definite disagreement); "opaque" - fn hands the work to code the rule cannot see through
// (a function value, a method of a generic helper type); "absent" otherwise.
func codingCallB(fn *ssa.Function, want string) (*ssa.Call, string) {
	var res *ssa.Call
	other, opaque := false, false
	ir.Instrs(fn, func(in ssa.Instruction) {
		call, ok := in.(*ssa.Call)
		if !ok {
			return
		}
		name := ir.CalleeFullName(call)
		switch {
		case name == want:
			res = call
		case strings.HasPrefix(name, "(encoding/binary."), strings.HasPrefix(name, "encoding/binary."):
			other = true
		case call.Call.IsInvoke():
		case ir.StaticCallee(call) == nil:
			if _, isBuiltin := call.Call.Value.(*ssa.Builtin); !isBuiltin {
				opaque = true // a function value
			}
		default:
			if cal := ir.StaticCallee(call); cal != nil && len(cal.Blocks) > 0 && !alwaysNonNilError(cal) {
				opaque = true // a repository helper that was not inlined
			}
		}
	})
	switch {
	case res != nil:
		return res, ""
	case other:
		return nil, "other"
	case opaque:
		return nil, "opaque"
	}
	return nil, "absent"
}

// fixedWidthSiblings is C15.S4.
func (c *Ctx) fixedWidthSiblings() {
	ow := c.P.LookupType("xbinary", "ObjectsWriter")
	if ow == nil {
		c.Fatalf("role ObjectsWriter not found")
	}
	for _, n := range []int64{16, 32, 64} {
		w := n / 8
		suffix := fmt.Sprint(n)
		m := c.RequireFn(c.P.Func("xbinary", "MarshalUint"+suffix), "MarshalUint"+suffix)
		u := c.RequireFn(c.P.Func("xbinary", "UnmarshalUint"+suffix), "UnmarshalUint"+suffix)
		wr := c.RequireFn(c.P.MethodOf(ow, "WriteUint"+suffix), "ObjectsWriter.WriteUint"+suffix)
		put := "(encoding/binary.bigEndian).PutUint" + suffix
		get := "(encoding/binary.bigEndian).Uint" + suffix
		app := "(encoding/binary.bigEndian).AppendUint" + suffix
		// encoder
		pc, st := codingCallB(m, put)
		if st == "opaque" {
			c.Undecided("C15.S4", m, "big-endian PutUint"+suffix, nil, "MarshalUint"+suffix+" leaves the encoding to code the rule does not see through (a function value or a helper that could not be inlined)")
		} else {
			c.Decide("C15.S4", m, "big-endian PutUint"+suffix, pc, pc != nil, "MarshalUint"+suffix+" does not use binary.BigEndian.PutUint"+suffix)
		}
		for _, ep := range exitsOfB(m) {
			if exitClassB(m, ep) == ir.ErrNil {
				k, isC := ir.ConstInt(ctxOfB(ep.Facts).refine(ep.Result(0)))
				c.Decide("C15.S4", m, fmt.Sprintf("returns %d", w), ep.Ret, isC && k == w, fmt.Sprintf("MarshalUint%s reports %d bytes written instead of %d", suffix, k, w))
			}
		}
		// decoder
		gc, st := codingCallB(u, get)
		if st == "opaque" {
			c.Undecided("C15.S4", u, "big-endian Uint"+suffix, nil, "UnmarshalUint"+suffix+" leaves the decoding to code the rule does not see through (a function value or a helper that could not be inlined)")
		} else {
			c.Decide("C15.S4", u, "big-endian Uint"+suffix, gc, gc != nil, "UnmarshalUint"+suffix+" does not use binary.BigEndian.Uint"+suffix)
		}
		if gc != nil {
			// the argument is the buffer itself or a window of it that starts at its first byte
			cx := ctxAtB(gc.Block())
			root, lo, _ := cx.sliceExtent(ir.MethodArgs(gc)[0])
			l, isC := lo.isConst()
			okArg := same(root, bufParam(u, false)) && isC && l == 0
			c.Decide("C15.S4", u, "decodes the head of the buffer", gc, okArg, "the value is not decoded from the start of the input buffer")
		}
		for _, ep := range exitsOfB(u) {
			if exitClassB(u, ep) == ir.ErrNil {
				cx := ctxOfB(ep.Facts)
				k, isC := ir.ConstInt(cx.refine(ep.Result(0)))
				c.Decide("C15.S4", u, fmt.Sprintf("returns %d", w), ep.Ret, isC && k == w, fmt.Sprintf("UnmarshalUint%s reports %d bytes consumed instead of %d", suffix, k, w))
				if gc != nil {
					c.Decide("C15.S4", u, "returns the decoded value", ep.Ret, cx.refine(ep.Result(1)) == ssa.Value(gc), "the returned value is not the decoded one")
				}
			}
		}
		// writer: encodes its argument into the first w bytes of the scratch array and writes exactly those:
		//   PutUintN(scratch[:w], v); Write(scratch[:w])      Write(AppendUintN(scratch[:0], v))
		//   n, _ := MarshalUintN(v, scratch[:]); Write(scratch[:n])     (n is w by the obligations on MarshalUintN above)
		okW := false
		var at ssa.Instruction
		detail := "WriteUint" + suffix + " does not encode with binary.BigEndian.PutUint" + suffix
		var param ssa.Value
		if len(wr.Params) >= 2 {
			param = wr.Params[1]
		}
		evs := writeEventsB(wr, 0)
		ir.Instrs(wr, func(in ssa.Instruction) {
			call, ok := in.(*ssa.Call)
			if !ok || okW {
				return
			}
			cx := ctxAtB(call.Block())
			name := ir.CalleeFullName(call)
			switch {
			case name == put:
				at = call
				detail = fmt.Sprintf("WriteUint%s does not write exactly the %d-byte prefix it encoded", suffix, w)
				root, lo, hi := cx.sliceExtent(ir.MethodArgs(call)[0])
				l, lc := lo.isConst()
				h, hc := hi.isConst()
				if _, isArr := derefArray(root.Type()); !isArr || !lc || !hc || l != 0 || h != w {
					return
				}
				if cx.refine(ir.MethodArgs(call)[1]) != param {
					detail = "WriteUint" + suffix + " encodes something else than its argument"
					return
				}
				for _, ev := range evs {
					if !ev.region || ev.path != ir.Path(root) || !ir.Dominates(call, ev.at) {
						continue
					}
					el, elc := ev.lo.isConst()
					eh, ehc := ev.hi.isConst()
					if elc && ehc && el == 0 && eh == w {
						okW = true
					}
				}
			case name == app:
				at = call
				detail = fmt.Sprintf("WriteUint%s does not write exactly the %d bytes it appended to the empty scratch prefix", suffix, w)
				root, lo, hi := cx.sliceExtent(ir.MethodArgs(call)[0])
				arr, isArr := derefArray(root.Type())
				l, lc := lo.isConst()
				h, hc := hi.isConst()
				if !isArr || !lc || !hc || l != 0 || h != 0 || arr.Len() < w {
					return
				}
				if cx.refine(ir.MethodArgs(call)[1]) != param {
					detail = "WriteUint" + suffix + " encodes something else than its argument"
					return
				}
				for _, ev := range evs {
					if ev.val == ssa.Value(call) {
						okW = true
					}
				}
			case ir.StaticCallee(call) == m:
				at = call
				detail = fmt.Sprintf("WriteUint%s does not write exactly the bytes MarshalUint%s produced in the scratch array", suffix, suffix)
				root, lo, hi := cx.sliceExtent(call.Call.Args[1])
				_, isArr := derefArray(root.Type())
				l, lc := lo.isConst()
				h, hc := hi.isConst()
				if !isArr || !lc || !hc || l != 0 || h < w {
					return
				}
				if cx.refine(call.Call.Args[0]) != param {
					detail = "WriteUint" + suffix + " encodes something else than its argument"
					return
				}
				for _, ev := range evs {
					if !ev.region || ev.path != ir.Path(root) || !ir.Dominates(call, ev.at) {
						continue
					}
					el, elc := ev.lo.isConst()
					if !elc || el != 0 {
						continue
					}
					if _, v, single := ev.hi.single(); single {
						if ex, isEx := v.(*ssa.Extract); isEx && ex.Tuple == ssa.Value(call) && ex.Index == 0 {
							okW = true
						}
					}
				}
			}
		})
		c.Decide("C15.S4", wr, fmt.Sprintf("writes its %d encoded bytes", w), at, okW, detail)
		if pc != nil {
			cx := ctxAtB(pc.Block())
			root, lo, _ := cx.sliceExtent(ir.MethodArgs(pc)[0])
			l, isC := lo.isConst()
			okV := len(m.Params) >= 1 && cx.refine(ir.MethodArgs(pc)[1]) == ssa.Value(m.Params[0]) && same(root, bufParam(m, true)) && isC && l == 0
			c.Decide("C15.S4", m, "encodes its argument into the buffer head", pc, okV, "MarshalUint"+suffix+" does not put its argument at the start of the buffer")
		}
	}
	c.R.Floor("C15.S4", 21)
}

// delegateTargetB: fn does nothing but call one function of its package with its own parameters, in order, and return the
// results (a thin exported wrapper around a - possibly generic - private implementation). Returns that function.
func delegateTargetB(fn *ssa.Function) *ssa.Function {
	if fn == nil || len(fn.Blocks) != 1 {
		return nil
	}
	var call *ssa.Call
	n := 0
	for _, in := range fn.Blocks[0].Instrs {
		if cl, ok := in.(*ssa.Call); ok {
			call = cl
			n++
		}
	}
	if n != 1 || call.Call.IsInvoke() {
		return nil
	}
	cal := ir.StaticCallee(call)
	if cal == nil || len(cal.Blocks) == 0 || cal.Pkg != fn.Pkg || len(call.Call.Args) != len(fn.Params) || len(cal.Params) != len(fn.Params) {
		return nil
	}
	for i, a := range call.Call.Args {
		if ir.Resolve(a) != ssa.Value(fn.Params[i]) {
			return nil
		}
	}
	ret, ok := fn.Blocks[0].Instrs[len(fn.Blocks[0].Instrs)-1].(*ssa.Return)
	if !ok {
		return nil
	}
	for i, r := range ret.Results {
		rv := ir.Resolve(r)
		if len(ret.Results) == 1 && rv == ssa.Value(call) {
			continue
		}
		if ex, isEx := rv.(*ssa.Extract); !isEx || ex.Tuple != ssa.Value(call) || ex.Index != i {
			return nil
		}
	}
	return cal
}

// implOfB follows thin wrappers to the function that holds the code.
func implOfB(fn *ssa.Function) *ssa.Function {
	for i := 0; i < 3; i++ {
		t := delegateTargetB(fn)
		if t == nil {
			return fn
		}
		fn = t
	}
	return fn
}

// leavesToHelperB: fn (or the implementation it wraps) calls a private function of its package that is neither a plain error
// constructor nor a role: code the rule would have to see through. The verdict on such a function is taken on the
// helper-inlined normal form; on the program as written a construct that was not found is undecided, not missing.
func leavesToHelperB(fn *ssa.Function) *ssa.Function {
	var res *ssa.Function
	impl := implOfB(fn)
	ir.Instrs(impl, func(in ssa.Instruction) {
		call, ok := in.(*ssa.Call)
		if !ok || res != nil {
			return
		}
		cal := ir.StaticCallee(call)
		if cal == nil || cal.Pkg != impl.Pkg || len(cal.Blocks) == 0 || alwaysNonNilError(cal) {
			return
		}
		if cal.Object() != nil && cal.Object().Exported() {
			return
		}
		res = cal
	})
	return res
}

// decideS5 records an S5 obligation; a construct that is not there while the function leaves work to a private helper is
// undecided.
func (c *Ctx) decideS5(fn *ssa.Function, construct string, at ssa.Instruction, ok bool, detail string) {
	if !ok {
		if h := leavesToHelperB(fn); h != nil {
			c.Undecided("C15.S5", fn, construct, at, detail+" - as far as the rule can see: part of the work is left to the private function "+h.Name()+", which it does not see through")
			return
		}
	}
	c.Decide("C15.S5", fn, construct, at, ok, detail)
}

// oneEncoder is C15.S5.
func (c *Ctx) oneEncoder() {
	ow := c.P.LookupType("xbinary", "ObjectsWriter")
	mu := c.RequireFn(c.P.Func("xbinary", "MarshalUint"), "MarshalUint")
	sizeU := c.RequireFn(c.P.Func("xbinary", "WritableUintSize"), "WritableUintSize")
	wu := c.RequireFn(c.P.MethodOf(ow, "WriteUint"), "ObjectsWriter.WriteUint")
	wb := c.RequireFn(c.P.MethodOf(ow, "WriteBytes"), "ObjectsWriter.WriteBytes")
	mb := c.RequireFn(c.P.Func("xbinary", "MarshalBytes"), "MarshalBytes")
	sb := c.RequireFn(c.P.Func("xbinary", "WritebleBytesSize"), "WritebleBytesSize")
	ws := c.RequireFn(c.P.MethodOf(ow, "WriteString"), "ObjectsWriter.WriteString")
	ms := c.RequireFn(c.P.Func("xbinary", "MarshalString"), "MarshalString")
	ss := c.RequireFn(c.P.Func("xbinary", "WritableStringSize"), "WritableStringSize")

	countOf := func(v ssa.Value, call *ssa.Call) bool {
		ex, isEx := v.(*ssa.Extract)
		return isEx && call != nil && ex.Tuple == ssa.Value(call) && ex.Index == 0
	}
	// WriteUint: MarshalUint(v, scratch[:]) on an array of >= 10 bytes; Write(scratch[:n]) with n the count
	{
		// the one varint encoder: MarshalUint, or the function holding its coding loop when MarshalUint only wraps it
		calls := callsTo(wu, mu)
		valIdx, bufIdx := 0, 1
		muImpl, via := c.loopImplB(mu, true)
		if muImpl != mu && via != nil {
			// MarshalUint must hand its arguments on and report the helper's count
			okWrap := true
			for i, a := range via.Call.Args {
				if i >= len(muImpl.Params) {
					okWrap = false
					break
				}
				if _, isSlice := muImpl.Params[i].Type().Underlying().(*types.Slice); isSlice {
					if !same(a, bufParam(mu, true)) {
						okWrap = false
					}
					bufIdx = i
				} else if isIntTypeB(muImpl.Params[i].Type()) {
					if ir.Resolve(a) != ssa.Value(mu.Params[0]) {
						okWrap = false
					}
					valIdx = i
				}
			}
			for _, ep := range exitsOfB(mu) {
				if exitClassB(mu, ep) == ir.ErrNil && !countOf(ctxOfB(ep.Facts).refine(ep.Result(0)), via) {
					okWrap = false
				}
			}
			c.Decide("C15.S5", mu, "wraps the function holding the coding loop: same arguments, its count", via, okWrap, "MarshalUint does not report the count of the encoder it wraps")
			if len(calls) == 0 {
				calls = callsTo(wu, muImpl)
			} else {
				valIdx, bufIdx = 0, 1
			}
		}
		ok, detail := false, "WriteUint does not call MarshalUint"
		if len(calls) == 1 && valIdx < len(calls[0].Call.Args) && bufIdx < len(calls[0].Call.Args) {
			call := calls[0]
			detail = "WriteUint does not write exactly the bytes MarshalUint produced from a scratch array that holds the longest varint"
			cx := ctxAtB(call.Block())
			root, lo, hi := cx.sliceExtent(call.Call.Args[bufIdx])
			l, lc := lo.isConst()
			h, hc := hi.isConst()
			if _, isArr := derefArray(root.Type()); isArr && lc && hc && l == 0 && h >= 10 {
				for _, ev := range writeEventsB(wu, 0) {
					if !ev.region || ev.path != ir.Path(root) || !ir.Dominates(call, ev.at) {
						continue
					}
					if el, elc := ev.lo.isConst(); !elc || el != 0 {
						continue
					}
					if _, v, single := ev.hi.single(); single && countOf(v, call) {
						ok = true
					}
				}
			}
			if len(wu.Params) >= 2 && cx.refine(call.Call.Args[valIdx]) != ssa.Value(wu.Params[1]) {
				ok, detail = false, "WriteUint encodes something else than its argument"
			}
		}
		c.Decide("C15.S5", wu, "MarshalUint into scratch[10], write scratch[:n]", nil, ok, detail)
	}
	// length prefix = uint(len(v)) through the varint encoder, then the body
	lenPrefix := func(fn *ssa.Function, enc *ssa.Function, argIdx int, body ssa.Value) (*ssa.Call, bool) {
		calls := callsTo(fn, enc)
		if len(calls) != 1 {
			return nil, false
		}
		cx := ctxAtB(calls[0].Block())
		a := cx.refine(calls[0].Call.Args[argIdx])
		if cv, ok := a.(*ssa.Convert); ok {
			a = cv.X
		}
		return calls[0], cx.of(a).equal(cx.lenOf(body, 0))
	}
	{
		call, ok := lenPrefix(wb, wu, 1, wb.Params[1])
		okBody := false
		if call != nil {
			for _, ev := range writeEventsB(wb, 0) {
				if ev.val == ssa.Value(wb.Params[1]) && ir.Dominates(call, ev.at) {
					okBody = true
				}
			}
		}
		c.decideS5(wb, "varint(len(v)) then v", call, ok && okBody, "WriteBytes does not emit the varint of len(v) followed by v")
	}
	{
		// the code may live in a private (generic) implementation shared with the string form
		impl := implOfB(mb)
		vParam, bParam := ssa.Value(impl.Params[0]), bufParam(impl, true)
		call, ok := lenPrefix(impl, mu, 0, vParam)
		okBody := false
		if call != nil && bParam != nil {
			ir.Instrs(impl, func(in ssa.Instruction) {
				if cc := builtinCall(in, "copy"); cc != nil && ir.Resolve(cc.Args[1]) == vParam && ir.Dominates(call, in) {
					// the destination starts right after the prefix: a window of buf that begins at the count of the prefix
					cx := ctxAtB(in.Block())
					root, lo, _ := cx.sliceExtent(cc.Args[0])
					if _, v, single := lo.single(); single && same(root, bParam) && countOf(v, call) {
						okBody = true
					}
				}
			})
		}
		c.decideS5(mb, "varint(len(v)) then v right after it", call, ok && okBody, "MarshalBytes does not emit the varint of len(v) followed directly by v")
		// returned count = len + prefix
		for _, ep := range exitsOfB(impl) {
			if exitClassB(impl, ep) != ir.ErrNil {
				continue
			}
			okCnt := false
			if call != nil {
				cx := ctxOfB(ep.Facts)
				d := cx.of(ep.Result(0)).add(cx.lenOf(vParam, 0), -1)
				if _, v, single := d.single(); single && countOf(v, call) {
					okCnt = true
				}
			}
			c.decideS5(mb, "count = prefix + len(v)", ep.Ret, okCnt, "MarshalBytes does not report prefix+len(v) bytes written")
		}
	}
	// sizeFormula: fn (or the implementation it wraps) returns WritableUintSize(uint64(len(p))) + len(p) for its parameter p
	sizeFormula := func(fn *ssa.Function) bool {
		impl := implOfB(fn)
		if len(impl.Params) != 1 {
			return false
		}
		p := ssa.Value(impl.Params[0])
		ok := false
		for _, ep := range exitsOfB(impl) {
			cx := ctxOfB(ep.Facts)
			d := cx.of(ep.Result(0)).add(cx.lenOf(p, 0), -1)
			_, v, single := d.single()
			if !single {
				return false
			}
			call, isCall := v.(*ssa.Call)
			if !isCall || ir.StaticCallee(call) != sizeU {
				return false
			}
			a := cx.refine(call.Call.Args[0])
			if cv, isCv := a.(*ssa.Convert); isCv {
				a = cv.X
			}
			if !cx.of(a).equal(cx.lenOf(p, 0)) {
				return false
			}
			ok = true
		}
		return ok
	}
	c.decideS5(sb, "size = WritableUintSize(len)+len", nil, sizeFormula(sb), "the predicted size of a byte string is not WritableUintSize(len)+len")
	// the string forms delegate to the byte forms through the zero-copy cast - or share their implementation with them
	// (a generic function over []byte | string: len and copy mean the same for both), or compute the same formula
	deleg := func(fn, to *ssa.Function, argIdx int, alt func() bool) {
		ok := false
		for _, call := range callsTo(fn, to) {
			if cc, isCall := ir.Resolve(call.Call.Args[argIdx]).(*ssa.Call); isCall && strings.HasSuffix(ir.CalleeFullName(cc), "cast.StringToByteArray") {
				for _, ret := range ir.Returns(fn) {
					if ex, isEx := ir.Resolve(ret.Results[0]).(*ssa.Extract); isEx && ex.Tuple == ssa.Value(call) {
						ok = true
					}
					if ir.Resolve(ret.Results[0]) == ssa.Value(call) {
						ok = true
					}
				}
			}
		}
		if !ok {
			if a, b := delegateTargetB(fn), delegateTargetB(to); a != nil && a == b {
				ok = true
			}
		}
		if !ok && alt != nil {
			ok = alt()
		}
		c.decideS5(fn, "string form delegates to "+to.Name(), nil, ok, fn.Name()+" does not delegate to "+to.Name()+" on the bytes of the string")
	}
	deleg(ws, wb, 1, nil)
	deleg(ms, mb, 0, nil)
	deleg(ss, sb, 0, func() bool { return sizeFormula(ss) })
	c.R.Floor("C15.S5", 8)
}

func derefArray(t types.Type) (*types.Array, bool) {
	if p, ok := t.Underlying().(*types.Pointer); ok {
		t = p.Elem()
	}
	a, ok := t.Underlying().(*types.Array)
	return a, ok
}

// altValueB is one alternative a value can have at a program point, with the facts that hold when it has it.
type altValueB struct {
	v     ssa.Value
	facts []ir.Fact
}

// alternativesB expands v at a point with the given facts into the values merged into it by phi nodes that are not loop
// variables; every alternative carries the facts of the predecessor it arrives from. Alternatives the facts exclude are
// dropped.
func alternativesB(v ssa.Value, facts []ir.Fact, depth int) []altValueB {
	cx := ctxOfB(facts)
	v = cx.refine(v)
	p, ok := v.(*ssa.Phi)
	if !ok || depth > 4 || isLoopHeaderB(p.Block()) {
		return []altValueB{{v, cx.facts}}
	}
	feasible, _ := cx.feasibleEdges(p.Block())
	var out []altValueB
	for j, e := range p.Edges {
		if !feasible[j] {
			continue
		}
		pred := p.Block().Preds[j]
		fs := append(append([]ir.Fact{}, facts...), importFactsB(factsB(pred, 0), p.Block())...)
		if ef := ir.EdgeFact(pred, p.Block()); ef != nil && !definedUnderB(ef.Cond, p.Block(), 0) {
			fs = append(fs, *ef)
		}
		// contradictory alternatives (the flag is known both ways) are unreachable
		out = append(out, alternativesB(e, fs, depth+1)...)
	}
	return out
}

// independentCopy is C15.S6.
func (c *Ctx) independentCopy() {
	ub := c.RequireFn(c.P.Func("xbinary", "UnmarshalBytes"), "UnmarshalBytes")
	sc := c.RequireFn(c.P.Func("container", "SliceCopy"), "container.SliceCopy")
	if len(ub.Params) < 2 {
		c.Fatalf("UnmarshalBytes: unexpected signature")
	}
	// a fresh copy: the result of container.SliceCopy, or a slice made here and filled by copy()
	isFreshCopy := func(v ssa.Value) bool {
		switch x := ir.Resolve(v).(type) {
		case *ssa.Call:
			return ir.StaticCallee(x) == sc
		case *ssa.MakeSlice:
			return len(copySourcesB(x)) > 0
		}
		return false
	}
	// copiesUnderFlag: every alternative of result v that is reachable with flag == true satisfies isCopy; sawTrue: there is one
	copiesUnderFlag := func(v ssa.Value, facts []ir.Fact, flag ssa.Value, isCopy func(ssa.Value, []ir.Fact) bool) (all, sawTrue bool) {
		all = true
		for _, alt := range alternativesB(v, facts, 0) {
			fv, known := ctxOfB(alt.facts).knownBool(flag, nil)
			if known && !fv {
				continue // only reached with newBuf == false
			}
			if isCopy(alt.v, alt.facts) {
				sawTrue = true
			} else {
				all = false
			}
		}
		return
	}
	flag := ub.Params[1]
	anyCopy := false
	var order []*ssa.Return
	okRet := map[*ssa.Return]bool{}
	for _, ep := range exitsOfB(ub) {
		if exitClassB(ub, ep) != ir.ErrNil {
			continue
		}
		all, saw := copiesUnderFlag(ep.Result(1), ep.Facts, flag, func(v ssa.Value, _ []ir.Fact) bool { return isFreshCopy(v) })
		if saw {
			anyCopy = true
		}
		if prev, dup := okRet[ep.Ret]; dup {
			okRet[ep.Ret] = prev && all
		} else {
			okRet[ep.Ret] = all
			order = append(order, ep.Ret)
		}
	}
	for i, ret := range order {
		ok := okRet[ret]
		if i == len(order)-1 && !anyCopy {
			ok = false // no exit copies at all: the flag is ignored
		}
		c.Decide("C15.S6", ub, "newBuf edge returns SliceCopy", ret, ok, "with newBuf=true the returned slice still aliases the source buffer")
	}
	// the string form: either it hands its own flag on to UnmarshalBytes, or its newBuf edge converts (copies)
	us := c.RequireFn(c.P.Func("xbinary", "UnmarshalString"), "UnmarshalString")
	if len(us.Params) >= 2 {
		sflag := us.Params[1]
		delegates := false
		for _, call := range callsTo(us, ub) {
			if ir.Resolve(call.Call.Args[1]) == ssa.Value(sflag) {
				delegates = true
			}
		}
		if delegates {
			c.Decide("C15.S6", us, "string form hands newBuf on to UnmarshalBytes", nil, true, "")
		} else {
			// every success exit reachable with newBuf == true must return a copied string: string(bytes), or the zero-copy
			// cast of a fresh copy of the bytes
			var isCopiedString func(v ssa.Value, facts []ir.Fact) bool
			isCopiedString = func(v ssa.Value, facts []ir.Fact) bool {
				switch x := v.(type) {
				case *ssa.Convert:
					_, isSlice := x.X.Type().Underlying().(*types.Slice)
					return isSlice
				case *ssa.Call:
					if strings.HasSuffix(ir.CalleeFullName(x), "cast.ByteArrayToString") {
						all, saw := copiesUnderFlag(x.Call.Args[0], facts, sflag, func(v ssa.Value, _ []ir.Fact) bool { return isFreshCopy(v) })
						return all && saw
					}
				}
				return false
			}
			ok := true
			n := 0
			for _, ep := range exitsOfB(us) {
				if exitClassB(us, ep) == ir.ErrNonNil {
					continue
				}
				if fv, known := ctxOfB(ep.Facts).knownBool(sflag, nil); known && !fv {
					continue
				}
				all, saw := copiesUnderFlag(ep.Result(1), ep.Facts, sflag, isCopiedString)
				if saw {
					n++
				}
				if !all {
					ok = false
				}
			}
			c.Decide("C15.S6", us, "string decoded with newBuf is a copy", nil, ok && n > 0, "UnmarshalString neither passes newBuf on to UnmarshalBytes nor copies on its newBuf edge: with newBuf=true the returned string still aliases the source buffer")
		}
	}
	// SliceCopy returns a made slice filled from its argument: make + copy, or append to an empty made slice
	okFresh := true
	nRet := 0
	for _, ret := range ir.Returns(sc) {
		for _, o := range ir.Origins(ret.Results[0]) {
			nRet++
			switch x := o.(type) {
			case *ssa.MakeSlice:
				filled := false
				for _, src := range copySourcesB(x) {
					if ir.Resolve(src) == ssa.Value(sc.Params[0]) {
						filled = true
					}
				}
				if !filled {
					okFresh = false
				}
			case *ssa.Call:
				cc := builtinCall(x, "append")
				if cc == nil || len(cc.Args) != 2 {
					okFresh = false
					continue
				}
				m, isMake := ir.Resolve(cc.Args[0]).(*ssa.MakeSlice)
				if !isMake || ir.Resolve(cc.Args[1]) != ssa.Value(sc.Params[0]) {
					okFresh = false
					continue
				}
				if k, isC := ir.ConstInt(m.Len); !isC || k != 0 {
					okFresh = false
				}
			default:
				okFresh = false
			}
		}
	}
	c.Decide("C15.S6", sc, "SliceCopy returns a fresh made slice", nil, okFresh && nRet > 0, "container.SliceCopy does not return a freshly allocated copy")
	c.R.Floor("C15.S6", 3)
}

// resultInterval computes an interval for the integer result of fn by abstract interpretation over intervals
// (no branch refinement): constants, + - * / by constants, bits.Len64 in [0,64], phi = join.
func resultInterval(fn *ssa.Function) (lo, hi int64, ok bool) {
	type iv struct {
		lo, hi int64
		ok     bool
	}
	memo := map[ssa.Value]iv{}
	var eval func(v ssa.Value, depth int) iv
	eval = func(v ssa.Value, depth int) iv {
		if r, done := memo[v]; done {
			return r
		}
		if depth > 20 {
			return iv{}
		}
		memo[v] = iv{} // cycles are unknown
		var r iv
		switch x := v.(type) {
		case *ssa.Const:
			if k, isC := ir.ConstInt(x); isC {
				r = iv{k, k, true}
			}
		case *ssa.Convert:
			r = eval(x.X, depth+1)
		case *ssa.Call:
			switch ir.CalleeFullName(x) {
			case "math/bits.Len64", "math/bits.Len":
				r = iv{0, 64, true}
			case "math/bits.Len32":
				r = iv{0, 32, true}
			case "math/bits.Len16":
				r = iv{0, 16, true}
			case "math/bits.Len8":
				r = iv{0, 8, true}
			}
			if b := builtinCall(x, "max"); b != nil && len(b.Args) == 2 {
				a, c2 := eval(b.Args[0], depth+1), eval(b.Args[1], depth+1)
				if a.ok && c2.ok {
					r = iv{maxI(a.lo, c2.lo), maxI(a.hi, c2.hi), true}
				}
			}
		case *ssa.BinOp:
			a, b := eval(x.X, depth+1), eval(x.Y, depth+1)
			if !a.ok || !b.ok {
				break
			}
			switch x.Op {
			case token.ADD:
				r = iv{a.lo + b.lo, a.hi + b.hi, true}
			case token.SUB:
				r = iv{a.lo - b.hi, a.hi - b.lo, true}
			case token.MUL:
				if a.lo >= 0 && b.lo >= 0 {
					r = iv{a.lo * b.lo, a.hi * b.hi, true}
				}
			case token.QUO:
				if b.lo == b.hi && b.lo > 0 && a.lo >= 0 {
					r = iv{a.lo / b.lo, a.hi / b.lo, true}
				}
			}
		case *ssa.Phi:
			r = iv{0, 0, true}
			first := true
			for _, e := range x.Edges {
				ev := eval(e, depth+1)
				if !ev.ok {
					r = iv{}
					break
				}
				if first {
					r, first = ev, false
				} else {
					r = iv{minI(r.lo, ev.lo), maxI(r.hi, ev.hi), true}
				}
			}
		}
		memo[v] = r
		return r
	}
	res := iv{0, 0, false}
	first := true
	for _, ret := range ir.Returns(fn) {
		ev := eval(ret.Results[0], 0)
		if !ev.ok {
			return 0, 0, false
		}
		if first {
			res, first = ev, false
		} else {
			res = iv{minI(res.lo, ev.lo), maxI(res.hi, ev.hi), true}
		}
	}
	return res.lo, res.hi, res.ok
}

func minI(a, b int64) int64 {
	if a < b {
		return a
	}
	return b
}

func maxI(a, b int64) int64 {
	if a > b {
		return a
	}
	return b
}

// sliceRemaining is the second half of C16.R3: when input is cut as a window of t bytes for a wire length t - X[lo:lo+t],
// X[:t], X[lo:][:t] - the guard that bounds t must compare it with what remains of the sliced value: len(X)-lo.
func (c *Ctx) sliceRemaining(fn *ssa.Function, s *ssa.Slice, tainted map[ssa.Value]bool, buf ssa.Value) {
	if s.High == nil || !same(sliceRoot(s), buf) {
		return
	}
	strip := func(v ssa.Value) ssa.Value {
		for {
			if cv, ok := v.(*ssa.Convert); ok {
				v = cv.X
				continue
			}
			return v
		}
	}
	hi := ir.Resolve(s.High)
	if !tainted[hi] {
		return
	}
	// the wire length among the summands of the high bound
	var leaves []ssa.Value
	var walk func(v ssa.Value)
	walk = func(v ssa.Value) {
		v = ir.Resolve(v)
		if bo, ok := v.(*ssa.BinOp); ok && bo.Op == token.ADD {
			walk(bo.X)
			walk(bo.Y)
			return
		}
		if tainted[v] {
			leaves = append(leaves, v)
		}
	}
	walk(hi)
	if len(leaves) != 1 {
		return
	}
	t := leaves[0]
	cx := ctxAtB(s.Block())
	lo := linConstB(0)
	if s.Low != nil {
		lo = cx.of(s.Low)
	}
	if !cx.of(hi).add(lo, -1).equal(cx.of(t)) {
		return // not a window of exactly t elements
	}
	remainingLen := cx.lenOf(s.X, 0).add(lo, -1)
	t = cx.refine(t)
	u := strip(t)
	ok := false
	for _, f := range cx.facts {
		cm, isCmp := f.Cmp()
		if !isCmp {
			continue
		}
		op, x, y := cm.Op, cm.X, cm.Y
		match := func(v ssa.Value) bool { return v == t || v == u || strip(v) == u }
		if !match(x) {
			if !match(y) {
				continue
			}
			x, y = y, x
			op = ir.SwapOp(op)
		}
		if (op == token.LEQ || op == token.LSS) && cx.of(strip(ir.Resolve(y))).equal(remainingLen) {
			ok = true
		}
	}
	c.Decide("C16.R3", fn, "wire length bounded by what remains of the sliced input", s, ok,
		"the length taken from the input is compared with something else than the remaining length of the slice it cuts (len(x)-offset): a record truncated by less than the header size passes the check, the decoder over-reads behind the input or panics")
}

// basicBitsB: the width of an integer type in bits (int/uint/uintptr count as 64).
func basicBitsB(b *types.Basic) int {
	switch b.Kind() {
	case types.Int8, types.Uint8:
		return 8
	case types.Int16, types.Uint16:
		return 16
	case types.Int32, types.Uint32:
		return 32
	}
	return 64
}

// tableIndexInRange (C16.R7): the private functions of the package that the decoders reach (error constructors, size
// formatters) index fixed-size tables in range. A decoder that detects bad input correctly and then panics while it
// builds the error is not total. The index is evaluated as an interval: constants, + - and / by constants, widening
// conversions, bits.Len (monotone, so an interval of the argument gives an interval of the result), a parameter or
// other value refined by the comparisons with constants that dominate the access. An index the evaluator cannot bound
// is undecided, an interval that leaves [0, len) is a violation.
func (c *Ctx) tableIndexInRange(rule string, decoders []*ssa.Function) {
	pkg := c.P.SSAPkg("xbinary")
	reach := map[*ssa.Function]bool{}
	var visit func(fn *ssa.Function, d int)
	visit = func(fn *ssa.Function, d int) {
		if fn == nil || reach[fn] || d > 4 || len(fn.Blocks) == 0 || fn.Pkg != pkg {
			return
		}
		reach[fn] = true
		for _, call := range ir.Calls(fn) {
			visit(ir.StaticCallee(call), d+1)
		}
	}
	for _, fn := range decoders {
		visit(fn, 0)
	}
	const big = int64(1) << 62
	type iv struct{ lo, hi int64 }
	clampAdd := func(a, b int64) int64 {
		r := a + b
		if a > 0 && b > 0 && r < 0 {
			return math.MaxInt64
		}
		if a < 0 && b < 0 && r > 0 {
			return math.MinInt64
		}
		return r
	}
	bitsLen := func(x int64) int64 {
		n := int64(0)
		for x > 0 {
			n++
			x >>= 1
		}
		return n
	}
	var eval func(v ssa.Value, at *ssa.BasicBlock, d int) (iv, bool)
	eval = func(v ssa.Value, at *ssa.BasicBlock, d int) (iv, bool) {
		if d > 8 {
			return iv{}, false
		}
		if k, isC := ir.ConstInt(v); isC {
			return iv{k, k}, true
		}
		var r iv
		ok := false
		switch x := v.(type) {
		case *ssa.Convert:
			r, ok = eval(x.X, at, d+1)
			if ok {
				if tb, isB := x.Type().Underlying().(*types.Basic); isB && tb.Info()&types.IsUnsigned != 0 && r.lo < 0 {
					ok = false // a negative value becomes a huge one
				}
			}
		case *ssa.BinOp:
			a, ok1 := eval(x.X, at, d+1)
			b, ok2 := eval(x.Y, at, d+1)
			if ok1 && ok2 {
				switch x.Op {
				case token.ADD:
					r, ok = iv{clampAdd(a.lo, b.lo), clampAdd(a.hi, b.hi)}, true
				case token.SUB:
					r, ok = iv{clampAdd(a.lo, -b.hi), clampAdd(a.hi, -b.lo)}, true
				case token.QUO:
					if b.lo == b.hi && b.lo > 0 && a.lo >= 0 {
						r, ok = iv{a.lo / b.lo, a.hi / b.lo}, true
					}
				case token.REM:
					if b.lo == b.hi && b.lo > 0 && a.lo >= 0 {
						r, ok = iv{0, b.lo - 1}, true
					}
				case token.SHR:
					if b.lo == b.hi && b.lo >= 0 && b.lo < 63 && a.lo >= 0 {
						r, ok = iv{a.lo >> uint(b.lo), a.hi >> uint(b.lo)}, true
					}
				case token.AND:
					if b.lo == b.hi && b.lo >= 0 {
						r, ok = iv{0, b.lo}, true
					}
				}
			}
		case *ssa.Call:
			name := ir.CalleeFullName(x)
			if strings.HasPrefix(name, "math/bits.Len") && len(x.Call.Args) == 1 {
				width := int64(64)
				switch name {
				case "math/bits.Len32":
					width = 32
				case "math/bits.Len16":
					width = 16
				case "math/bits.Len8":
					width = 8
				}
				if a, okA := eval(x.Call.Args[0], at, d+1); okA && a.lo >= 0 {
					// (an unsigned word whose interval is saturated at MaxInt64 may have its top bit set: v_codec_g_bits.go)
					r, ok = iv{bitsLen(a.lo), c.bitsLenUpperV(x.Call.Args[0], a.hi, bitsLen(a.hi), width)}, true
				} else {
					r, ok = iv{0, width}, true
				}
			}
			if cc := builtinCall(x, "len"); cc != nil {
				if arr, isArr := derefArray(cc.Args[0].Type()); isArr {
					r, ok = iv{arr.Len(), arr.Len()}, true
				} else {
					r, ok = iv{0, math.MaxInt64}, true
				}
			}
		case *ssa.Phi:
			first := true
			ok = true
			for _, e := range x.Edges {
				ev, okE := eval(e, at, d+1)
				if !okE {
					ok = false
					break
				}
				if first {
					r, first = ev, false
				} else {
					r = iv{minI(r.lo, ev.lo), maxI(r.hi, ev.hi)}
				}
			}
		}
		if !ok {
			// an opaque integer: the range of its type
			tb, isB := v.Type().Underlying().(*types.Basic)
			if !isB || tb.Info()&types.IsInteger == 0 {
				return iv{}, false
			}
			r = iv{math.MinInt64, math.MaxInt64}
			if tb.Info()&types.IsUnsigned != 0 {
				r.lo = 0
			}
			switch tb.Kind() {
			case types.Uint8:
				r.hi = 255
			case types.Uint16:
				r.hi = 65535
			case types.Int8:
				r = iv{-128, 127}
			case types.Int16:
				r = iv{-32768, 32767}
			}
			ok = true
		}
		// refine by the comparisons with constants that dominate the point of use
		for _, f := range ir.Facts(at) {
			cm, isCmp := f.Cmp()
			if !isCmp {
				continue
			}
			x, y, op := cm.X, cm.Y, cm.Op
			if x != v {
				if y != v {
					continue
				}
				x, y, op = y, x, ir.SwapOp(op)
			}
			k, isC := ir.ConstInt(y)
			if !isC {
				continue
			}
			switch op {
			case token.LSS:
				r.hi = minI(r.hi, k-1)
			case token.LEQ:
				r.hi = minI(r.hi, k)
			case token.GTR:
				r.lo = maxI(r.lo, k+1)
			case token.GEQ:
				r.lo = maxI(r.lo, k)
			case token.EQL:
				r.lo, r.hi = maxI(r.lo, k), minI(r.hi, k)
			}
		}
		return r, true
	}
	n := 0
	for fn := range reach {
		fn := fn
		ir.Instrs(fn, func(in ssa.Instruction) {
			var x, idx ssa.Value
			switch y := in.(type) {
			case *ssa.IndexAddr:
				x, idx = y.X, y.Index
			case *ssa.Index:
				x, idx = y.X, y.Index
			default:
				return
			}
			arr, isArr := derefArray(x.Type())
			if !isArr {
				return
			}
			if _, isC := ir.ConstInt(idx); isC {
				return // checked by the compiler
			}
			n++
			r, ok := eval(idx, in.Block(), 0)
			if !ok {
				c.Undecided(rule, fn, "table index in range", in, "cannot bound the index of a fixed-size table")
				return
			}
			c.Decide(rule, fn, "table index in range", in, r.lo >= 0 && r.hi < arr.Len(),
				fmt.Sprintf("a table of %d elements is indexed with a value in [%d,%d]: on the inputs at the ends of that range the decoder panics (index out of range) while it handles - or reports - the input, instead of returning an error", arr.Len(), r.lo, r.hi))
		})
	}
	if n == 0 {
		c.Decide(rule, decoders[0], "table index in range", nil, true, "")
	}
}

// tightSizeGuards (C15.S9): a fixed-width coder refuses a buffer only when it is shorter than the N bytes it reports to
// have written / read. The guard `len(buf) < N` may be written in any form, but a buffer of exactly N bytes - what the
// encoder just produced, a value that sits at the very end of a stream - must pass: the round trip of a value through
// its own encoding depends on it.
func (c *Ctx) tightSizeGuards() {
	n := 0
	for _, pre := range []string{"Unmarshal", "Marshal"} {
		for _, fn := range xbinaryFuncs(c, pre) {
			buf := bufParam(fn, pre == "Marshal")
			if buf == nil {
				continue
			}
			errIdx := ir.ErrResultIndex(fn)
			if errIdx < 0 {
				continue
			}
			// the constant count of the success exits
			size, fixed := int64(-1), true
			for _, e := range ir.ExitPoints(fn) {
				if ir.ClassifyErr(e.Result(errIdx), e.Block) != ir.ErrNil {
					continue
				}
				k, isC := ir.ConstInt(ir.Resolve(e.Result(0)))
				if !isC || (size >= 0 && size != k) {
					fixed = false
				}
				size = k
			}
			if !fixed || size <= 0 {
				continue // not a fixed-width coder
			}
			for _, e := range ir.ExitPoints(fn) {
				if ir.ClassifyErr(e.Result(errIdx), e.Block) == ir.ErrNil {
					continue
				}
				// the largest buffer length this exit refuses
				refusesUpTo, found := int64(-1), false
				for _, f := range e.Facts() {
					cm, isCmp := f.Cmp()
					if !isCmp {
						continue
					}
					x, y, op := cm.X, cm.Y, cm.Op
					if !isLenOf(x, buf) {
						if !isLenOf(y, buf) {
							continue
						}
						x, y, op = y, x, ir.SwapOp(op)
					}
					k, isC := ir.ConstInt(y)
					if !isC {
						continue
					}
					switch op {
					case token.LSS:
						refusesUpTo, found = k-1, true
					case token.LEQ:
						refusesUpTo, found = k, true
					case token.EQL:
						refusesUpTo, found = k, true
					}
				}
				if !found {
					continue
				}
				n++
				c.Decide("C15.S9", fn, "buffer of exactly the coded size is accepted", e.Ret, refusesUpTo < size,
					fmt.Sprintf("%s refuses buffers of up to %d bytes but codes %d: the exact encoding of a value (a value at the very end of a stream) is refused, decode(encode(v)) fails", fn.Name(), refusesUpTo, size))
			}
		}
	}
	c.R.Floor("C15.S9", 6)
	_ = n
}
