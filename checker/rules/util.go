package rules

import (
	"go/token"
	"go/types"
	"strings"
	"sync"

	"golang.org/x/tools/go/ssa"

	"verif/checker/ir"
)

// structOf returns the struct underlying a named type (through one pointer).
func structOf(t types.Type) *types.Struct {
	if t == nil {
		return nil
	}
	if p, ok := t.Underlying().(*types.Pointer); ok {
		t = p.Elem()
	}
	st, _ := t.Underlying().(*types.Struct)
	return st
}

// fieldsWhere returns the fields of the struct behind t that satisfy pred.
func fieldsWhere(t types.Type, pred func(*types.Var) bool) []*types.Var {
	st := structOf(t)
	if st == nil {
		return nil
	}
	var res []*types.Var
	for i := 0; i < st.NumFields(); i++ {
		if f := st.Field(i); pred(f) {
			res = append(res, f.Origin())
		}
	}
	return res
}

// oneField resolves a role to exactly one field or aborts.
func (c *Ctx) oneField(role string, t types.Type, pred func(*types.Var) bool) *types.Var {
	fs := fieldsWhere(t, pred)
	if len(fs) != 1 {
		c.Fatalf("role %q: expected exactly one matching field in %s, found %d", role, types.TypeString(t, nil), len(fs))
	}
	c.Role(role, fs[0].Name(), fs[0].Pos())
	return fs[0]
}

// fieldAddrOf reports whether v is (a load through) the address of field f; returns the base.
func fieldAddrOf(v ssa.Value, f *types.Var) (ssa.Value, bool) {
	if fa, ok := v.(*ssa.FieldAddr); ok {
		if ir.FieldOf(fa) == f {
			return fa.X, true
		}
	}
	return nil, false
}

// loadOfField reports whether v is a load of field f (or a Field extraction); returns the base.
func loadOfField(v ssa.Value, f *types.Var) (ssa.Value, bool) {
	v = ir.Resolve(v)
	switch x := v.(type) {
	case *ssa.UnOp:
		if x.Op == token.MUL {
			return fieldAddrOf(x.X, f)
		}
	case *ssa.Field:
		if ir.FieldOf(x) == f {
			return x.X, true
		}
	}
	return nil, false
}

// storeToField reports whether in stores to field f; returns base and stored value.
func storeToField(in ssa.Instruction, f *types.Var) (base, val ssa.Value, ok bool) {
	s, isStore := in.(*ssa.Store)
	if !isStore {
		return nil, nil, false
	}
	if b, ok := fieldAddrOf(s.Addr, f); ok {
		return b, s.Val, true
	}
	return nil, nil, false
}

// same reports whether two values resolve to the same SSA value.
func same(a, b ssa.Value) bool {
	if a == nil || b == nil {
		return false
	}
	return ir.Resolve(a) == ir.Resolve(b)
}

// samePath reports whether two values have the same (rooted) access path.
func samePath(a, b ssa.Value) bool {
	pa, pb := ir.Path(a), ir.Path(b)
	return pa == pb && !strings.HasPrefix(pa, "v:") && !strings.HasPrefix(pa, "a:")
}

// callsTo lists the calls in fn whose static callee is target.
func callsTo(fn *ssa.Function, target *ssa.Function) []*ssa.Call {
	var res []*ssa.Call
	ir.Instrs(fn, func(in ssa.Instruction) {
		if c, ok := in.(*ssa.Call); ok && target != nil && ir.StaticCallee(c) == target {
			res = append(res, c)
		}
	})
	return res
}

// isCallTo reports whether in is a call/defer/go to target.
func isCallTo(in ssa.Instruction, target *ssa.Function) bool {
	c, ok := in.(ssa.CallInstruction)
	return ok && target != nil && ir.StaticCallee(c) == target
}

// namedOf strips pointers and returns the named type, or nil.
func namedOf(t types.Type) *types.Named {
	for {
		if p, ok := t.(*types.Pointer); ok {
			t = p.Elem()
			continue
		}
		break
	}
	n, _ := t.(*types.Named)
	if n != nil {
		return n.Origin()
	}
	return nil
}

// isIncrement reports whether store s writes load(addr)+delta back to the same field of the same base.
func isFieldDelta(in ssa.Instruction, f *types.Var, delta int64) (base ssa.Value, ok bool) {
	b, val, isStore := storeToField(in, f)
	if !isStore {
		return nil, false
	}
	bo, isBin := val.(*ssa.BinOp)
	if !isBin {
		return nil, false
	}
	c, isConst := ir.ConstInt(bo.Y)
	if !isConst {
		return nil, false
	}
	switch bo.Op {
	case token.ADD:
	case token.SUB:
		c = -c
	default:
		return nil, false
	}
	if c != delta {
		return nil, false
	}
	lb, isLoad := loadOfField(bo.X, f)
	if !isLoad || !same(lb, b) {
		return nil, false
	}
	return b, true
}

// hasFactCmp reports whether a fact at block b is a comparison satisfying pred.
func hasFactCmp(b *ssa.BasicBlock, pred func(ir.Cmp) bool) bool {
	return ir.HasFact(b, func(f ir.Fact) bool {
		c, ok := f.Cmp()
		return ok && pred(c)
	})
}

// builtinCall reports whether in is a call of the named builtin (delete, close, append, copy, len).
func builtinCall(in ssa.Instruction, name string) *ssa.CallCommon {
	c, ok := in.(ssa.CallInstruction)
	if !ok {
		return nil
	}
	if b, ok := c.Common().Value.(*ssa.Builtin); ok && b.Name() == name {
		return c.Common()
	}
	return nil
}

// relName renders a function for messages.
func relName(fn *ssa.Function) string {
	claimFn(fn)
	return ir.FnName(fn)
}

// claimed records, per loaded program, the functions some rule has resolved as a role (a helper it knows by what it
// does). The source normaliser leaves calls of these functions alone and inlines the other private helpers.
var claimed sync.Map // *ssa.Program -> *sync.Map (FnName -> true)

func claimFn(fn *ssa.Function) {
	if fn == nil || fn.Prog == nil {
		return
	}
	m, _ := claimed.LoadOrStore(fn.Prog, &sync.Map{})
	m.(*sync.Map).Store(ir.FnName(fn), true)
}

// ClaimedFns returns the short names of the functions claimed as roles while checking prog.
func ClaimedFns(prog *ssa.Program) map[string]bool {
	res := map[string]bool{}
	if m, ok := claimed.Load(prog); ok {
		m.(*sync.Map).Range(func(k, _ any) bool { res[k.(string)] = true; return true })
	}
	return res
}

// ForgetClaims drops the record of prog.
func ForgetClaims(prog *ssa.Program) { claimed.Delete(prog) }

// methodsWhere returns the source methods of named type t that satisfy pred.
func (c *Ctx) methodsWhere(t *types.Named, pred func(*ssa.Function) bool) []*ssa.Function {
	var res []*ssa.Function
	for _, m := range c.P.MethodsOf(t) {
		if len(m.Blocks) > 0 && pred(m) {
			res = append(res, m)
		}
	}
	return res
}

func (c *Ctx) oneMethod(role string, t *types.Named, pred func(*ssa.Function) bool) *ssa.Function {
	ms := c.methodsWhere(t, pred)
	if len(ms) != 1 {
		var names []string
		for _, m := range ms {
			names = append(names, m.Name())
		}
		c.Fatalf("role %q: expected exactly one matching method of %s, found %d %v", role, t.Obj().Name(), len(ms), names)
	}
	c.Role(role, relName(ms[0]), ms[0].Pos())
	c.Saw(ms[0])
	return ms[0]
}

// sigParams returns the non-receiver parameter types and result types of fn.
func sigOf(fn *ssa.Function) (params, results []types.Type) {
	s := fn.Signature
	for i := 0; i < s.Params().Len(); i++ {
		params = append(params, s.Params().At(i).Type())
	}
	for i := 0; i < s.Results().Len(); i++ {
		results = append(results, s.Results().At(i).Type())
	}
	return
}

// oneFieldDeep is oneField that also looks into fields whose type is a struct declared in the same package (a typed
// wrapper around the word the role is about): it returns the innermost matching field.
func (c *Ctx) oneFieldDeep(role string, t types.Type, pred func(*types.Var) bool) *types.Var {
	var found []*types.Var
	var walk func(t types.Type, depth int)
	walk = func(t types.Type, depth int) {
		if depth > 2 {
			return
		}
		st := structOf(namedOf(t))
		if st == nil {
			if s, ok := t.Underlying().(*types.Struct); ok {
				st = s
			} else {
				return
			}
		}
		for i := 0; i < st.NumFields(); i++ {
			f := st.Field(i).Origin()
			if pred(f) {
				found = append(found, f)
				continue
			}
			if n := namedOf(f.Type()); n != nil && n.Obj().Pkg() != nil && namedOf(t) != nil && namedOf(t).Obj().Pkg() == n.Obj().Pkg() {
				if _, isStruct := n.Underlying().(*types.Struct); isStruct {
					if _, isPtr := f.Type().(*types.Pointer); !isPtr {
						walk(n, depth+1)
					}
				}
			}
		}
	}
	walk(t, 0)
	if len(found) != 1 {
		c.Fatalf("role %q: expected exactly one matching field in %s (or in a wrapper struct of it), found %d", role, types.TypeString(t, nil), len(found))
	}
	c.Role(role, found[0].Name(), found[0].Pos())
	return found[0]
}
