package rules

import (
	"go/token"
	"go/types"

	"golang.org/x/tools/go/ssa"

	"verif/checker/ir"
)

// ===========================================================================
// C20.R14: what hands out the entries of an archive hands out every entry
//
// What it decides. In every function of the package that returns a *zip.File and reads elements of an entry list (a
// load through an index into a []*zip.File - zip.Reader.File, or whatever slice of it the iterator keeps): the element
// read is the element returned. No path leads from the read of an element to the read of another element (a loop that
// goes on to the next entry), or to a return whose *zip.File result is - with phi nodes resolved by the path and locals
// followed - anything but the element read. How the cursor is kept (an index field, a slice of the remaining entries
// whose head is popped) does not matter.
//
// Why it is necessary. UnzipToFolder sees the archive through this function: an entry it reads and does not hand out is
// a file of the tree that the round trip loses without any error ("reproduces every regular file ... that the filter
// and the recursive flag select"). The iterator has no business selecting: the only name-based decision the property
// knows is the containment of the cleaned destination path, made where the destination is known (R1/R2) and answered
// with an error - a substring test on the raw name ("..") drops release..notes.txt and ..profile as well.
//
// A function that only searches the list (no state that outlives the call is written: no cursor) is no iterator and is
// not looked at.
//
// Not decided: that the cursor advances by exactly one (an index arithmetic statement), that nil is returned only when
// the list is exhausted. Over-approximation: an iterator that documents a filter of its own is flagged.
func (h *zipHard) entriesYielded(rule string) {
	c := h.c
	hasIter := false
	for _, fn := range h.fns {
		res := fn.Signature.Results()
		ridx := -1
		for i := 0; i < res.Len(); i++ {
			if isZipFilePtr(res.At(i).Type()) {
				ridx = i
			}
		}
		if ridx < 0 || len(fn.Blocks) == 0 {
			continue
		}
		hasIter = true
		var reads []*ssa.UnOp
		ir.Instrs(fn, func(in ssa.Instruction) {
			u, ok := in.(*ssa.UnOp)
			if !ok || u.Op != token.MUL || !isZipFilePtr(u.Type()) {
				return
			}
			ia, ok := u.X.(*ssa.IndexAddr)
			if !ok {
				return
			}
			switch t := ia.X.Type().Underlying().(type) {
			case *types.Slice:
				if isZipFilePtr(t.Elem()) {
					reads = append(reads, u)
				}
			case *types.Pointer:
				if arr, isArr := t.Elem().Underlying().(*types.Array); isArr && isZipFilePtr(arr.Elem()) {
					reads = append(reads, u)
				}
			}
		})
		if len(reads) == 0 || !keepsCursor(fn) {
			continue
		}
		c.Saw(fn)
		isRead := map[ssa.Instruction]bool{}
		for _, r := range reads {
			isRead[r] = true
		}
		for _, r := range reads {
			r := r
			yields := func(v ssa.Value, val *ir.Valuation) bool {
				if v == nil {
					return false
				}
				if val.SameOnPath(v, r) {
					return true
				}
				s := val.Selected(v)
				return s == ssa.Value(r) || ir.Resolve(s) == ssa.Value(r) || peelLocal(s) == ssa.Value(r)
			}
			q := ir.PathQuery{Fn: fn, From: r,
				Stop: func(in ssa.Instruction) bool {
					_, isRet := in.(*ssa.Return)
					return isRet
				},
				Target: func(in ssa.Instruction, val *ir.Valuation) bool {
					if isRead[in] {
						return true // on to another element without having handed this one out
					}
					ret, ok := in.(*ssa.Return)
					if !ok || in.Block() == fn.Recover || ridx >= len(ret.Results) {
						return false
					}
					return !yields(ret.Results[ridx], val) && !yields(ir.ResultValue(ret, ridx), val)
				}}
			c.pathVerdict(rule, fn, "every entry read from the archive's entry list is handed out", r, q,
				"an element of the entry list is read and then passed by - the function goes on to another element, or returns something else: the entry never reaches UnzipToFolder, the file is missing after the round trip and no error is reported")
		}
	}
	if hasIter {
		c.R.Floor(rule, 1)
	}
}

// keepsCursor: fn writes memory that outlives the call - a field or element reached through a pointer it did not
// allocate itself, a captured variable, a package variable. That is what makes "the next entry" of one call depend on
// the calls before it.
func keepsCursor(fn *ssa.Function) bool {
	var local func(v ssa.Value, d int) bool
	local = func(v ssa.Value, d int) bool {
		if d > 8 {
			return false
		}
		switch x := v.(type) {
		case *ssa.Alloc:
			return true
		case *ssa.FieldAddr:
			return local(x.X, d+1)
		case *ssa.IndexAddr:
			return local(x.X, d+1)
		}
		return false
	}
	found := false
	ir.Instrs(fn, func(in ssa.Instruction) {
		if st, ok := in.(*ssa.Store); ok && !local(st.Addr, 0) {
			found = true
		}
	})
	return found
}
