package rules

// D6 - the zero-copy conversions of package cast return the bytes of their argument.
//
// The codec rules (C15.S5/S6, C16.R5), the redis rules and the embedded-object rules (C19.R4) see a call of
// cast.ByteArrayToString / cast.StringToByteArray and take it for "the same bytes under the other type": the string
// decoder is "the bytes decoder followed by the cast", the string encoder "the cast followed by the bytes encoder", the
// decoded string "a sub-range of the input". A change inside the conversion - a result taken from a table, built by
// string(rune), cut shorter, a header with the wrong length or capacity - breaks decode(encode(x)) = x and "the returned
// bytes are a sub-range of the input" with every function of the codec textually untouched.
//
// The contract, decided on the helper's own body for every function of package cast that converts a byte slice to a
// string or back: on every exit the result is
//   - a view over exactly the memory of the argument: unsafe.String(unsafe.SliceData(b), len(b)) /
//     unsafe.Slice(unsafe.StringData(s), len(s)); the argument's own header read under the other type (a string read from
//     the cell of a byte slice: the first two words); a header (reflect.StringHeader / SliceHeader, or the result variable
//     seen as one) whose data word is the data word of the argument and whose length - and capacity, for a slice - is the
//     length of the argument; or
//   - the whole-value conversion string(b) / []byte(s) (a copy with the same bytes); or
//   - the empty value where the argument is known to be empty,
// and the function does not write to the memory of its argument. A result read from a package-level variable, a
// non-empty constant, a conversion from a number, a view with another length, a slice header read from the two-word
// cell of a string (the capacity is whatever follows in memory) are violations; what the evaluation does not understand
// is undecided, never accepted.
//
// The evaluation is a provenance walk over go/ssa with the branch facts of the exits; nothing is executed.

import (
	"go/constant"
	"go/token"
	"go/types"
	"sort"
	"strings"

	"golang.org/x/tools/go/ssa"

	"verif/checker/ir"
)

type castVerdictV int

const (
	castOKV castVerdictV = iota
	castUnknownV
	castForeignV
)

type castEvalV struct {
	fn *ssa.Function
	p  *ssa.Parameter
}

// zeroCopyConversionsV lists the functions of the repository's package cast that turn a byte slice into a string or a
// string into a byte slice (the role is resolved by the signature, not by the name).
func zeroCopyConversionsV(used map[string]*ssa.Function) []*ssa.Function {
	var res []*ssa.Function
	for _, fn := range used {
		if fn == nil || fn.Pkg == nil || fn.Pkg.Pkg.Path() != ir.Module+"/cast" || len(fn.Blocks) == 0 {
			continue
		}
		sig := fn.Signature
		if sig.Recv() != nil || sig.Params().Len() != 1 || sig.Results().Len() != 1 {
			continue
		}
		in, out := sig.Params().At(0).Type(), sig.Results().At(0).Type()
		if isByteSeqB(in) && isByteSeqB(out) && !types.Identical(in.Underlying(), out.Underlying()) {
			res = append(res, fn)
		}
	}
	sort.Slice(res, func(i, j int) bool { return res[i].Name() < res[j].Name() })
	return res
}

// depZeroCopy is D6.
func (c *Ctx) depZeroCopy(rule string, fn *ssa.Function) {
	c.Saw(fn)
	const construct = "result is the bytes of the argument: same memory and length, or a whole copy"
	e := &castEvalV{fn: fn, p: fn.Params[0]}
	worst, why := castOKV, ""
	note := func(v castVerdictV, w string) {
		if v > worst {
			worst, why = v, w
		}
	}
	eps := ir.ExitPoints(fn)
	if len(eps) == 0 {
		note(castUnknownV, "no return")
	}
	for _, ep := range eps {
		v, w := e.result(ep.Result(0), ep.Facts(), ep.Ret, 0)
		note(v, w)
	}
	// the conversion does not write to the bytes it is given
	ir.Instrs(fn, func(in ssa.Instruction) {
		switch x := in.(type) {
		case *ssa.Store:
			if ia, ok := x.Addr.(*ssa.IndexAddr); ok && e.isArg(sliceRoot(ia.X)) {
				note(castForeignV, "it stores into the memory of its argument")
			}
		case *ssa.Call:
			if cc := builtinCall(x, "copy"); cc != nil && e.isArg(sliceRoot(cc.Args[0])) {
				note(castForeignV, "it copies into the memory of its argument")
			}
		}
	})
	switch worst {
	case castOKV:
		c.Decide(rule, fn, construct, nil, true, "")
	case castForeignV:
		c.Decide(rule, fn, construct, nil, false, "cast."+fn.Name()+" is taken by the rules for 'the same bytes under the other type', but "+why+
			": what the string coders return / encode is no longer the bytes of the value (decode(encode(x)) differs from x, the decoded string is neither a sub-range of the input nor a copy of one, an embedded object does not come back)")
	default:
		c.Undecided(rule, fn, construct, nil, "cannot establish that cast."+fn.Name()+" returns the bytes of its argument: "+why)
	}
}

func (e *castEvalV) isArg(v ssa.Value) bool {
	return v != nil && ir.Resolve(v) == ssa.Value(e.p)
}

func (e *castEvalV) isLenOfArg(v ssa.Value) bool {
	call, ok := ir.Resolve(v).(*ssa.Call)
	if !ok {
		return false
	}
	cc := builtinCall(call, "len")
	return cc != nil && e.isArg(cc.Args[0])
}

// lenFact: what the facts say about len(argument): -1 it is 0, +1 it is positive, 0 nothing.
func (e *castEvalV) lenFact(facts []ir.Fact) int {
	res := 0
	for _, f := range facts {
		cm, ok := f.Cmp()
		if !ok {
			continue
		}
		op, x, y := cm.Op, cm.X, cm.Y
		if !e.isLenOfArg(x) {
			x, y = y, x
			op = ir.SwapOp(op)
		}
		if !e.isLenOfArg(x) {
			continue
		}
		k, isC := ir.ConstInt(y)
		if !isC {
			continue
		}
		switch {
		case op == token.EQL && k == 0, op == token.LSS && k == 1, op == token.LEQ && k == 0:
			res = -1
		case op == token.NEQ && k == 0, op == token.GTR && k >= 0, op == token.GEQ && k >= 1, op == token.EQL && k > 0:
			res = 1
		}
	}
	return res
}

// stripPtrCastsV removes pointer conversions (through unsafe.Pointer) from an address.
func stripPtrCastsV(v ssa.Value) (base ssa.Value, cast bool) {
	for i := 0; i < 8; i++ {
		switch x := v.(type) {
		case *ssa.Convert:
			v, cast = x.X, true
			continue
		case *ssa.ChangeType:
			v = x.X
			continue
		}
		break
	}
	return v, cast
}

// headerWordsV: the number of machine words of a string (2) / slice (3) header, or of a struct of word-sized fields that
// is laid out like one (reflect.StringHeader, reflect.SliceHeader); 0 for anything else.
func headerWordsV(t types.Type) int {
	switch u := t.Underlying().(type) {
	case *types.Basic:
		if u.Info()&types.IsString != 0 {
			return 2
		}
	case *types.Slice:
		return 3
	case *types.Struct:
		if u.NumFields() < 2 || u.NumFields() > 3 {
			return 0
		}
		for i := 0; i < u.NumFields(); i++ {
			ft := u.Field(i).Type().Underlying()
			switch f := ft.(type) {
			case *types.Basic:
				if f.Kind() != types.Int && f.Kind() != types.Uintptr && f.Kind() != types.Uint && f.Kind() != types.UnsafePointer {
					return 0
				}
				if i == 0 && f.Kind() != types.Uintptr && f.Kind() != types.UnsafePointer {
					return 0
				}
			case *types.Pointer:
				if i != 0 {
					return 0
				}
			default:
				return 0
			}
		}
		return u.NumFields()
	}
	return 0
}

// cellStoresV describes what is written into local cell a: stores of a whole value, and stores to word i of the cell
// seen as a header (directly to a field of a header struct, or through a pointer conversion of the cell's address).
type cellStoresV struct {
	whole   []*ssa.Store
	field   map[int][]*ssa.Store
	escapes bool
}

func cellStoresOfV(a *ssa.Alloc) *cellStoresV {
	cs := &cellStoresV{field: map[int][]*ssa.Store{}}
	var walk func(p ssa.Value, depth int)
	walk = func(p ssa.Value, depth int) {
		if p.Referrers() == nil || depth > 6 {
			return
		}
		for _, r := range *p.Referrers() {
			switch x := r.(type) {
			case *ssa.Store:
				if x.Addr == p {
					cs.whole = append(cs.whole, x)
				} else {
					cs.escapes = true
				}
			case *ssa.Convert:
				walk(x, depth+1)
			case *ssa.ChangeType:
				walk(x, depth+1)
			case *ssa.FieldAddr:
				if x.Referrers() == nil {
					continue
				}
				for _, fr := range *x.Referrers() {
					switch y := fr.(type) {
					case *ssa.Store:
						if y.Addr == ssa.Value(x) {
							cs.field[x.Field] = append(cs.field[x.Field], y)
						} else {
							cs.escapes = true
						}
					case *ssa.UnOp, *ssa.DebugRef:
					default:
						cs.escapes = true
					}
				}
			case *ssa.UnOp, *ssa.DebugRef:
			default:
				cs.escapes = true
			}
		}
	}
	walk(a, 0)
	return cs
}

// argCell: a is a local cell that holds the argument and nothing else (the spilled parameter, or a plain local copy).
func (e *castEvalV) argCell(v ssa.Value) bool {
	a, ok := v.(*ssa.Alloc)
	if !ok {
		return false
	}
	cs := cellStoresOfV(a)
	return !cs.escapes && len(cs.field) == 0 && len(cs.whole) == 1 && e.isArg(cs.whole[0].Val)
}

// argHeader: ptr points to a header struct that holds the words of the argument's own header: the argument's cell seen
// through a pointer conversion, or a local header struct that was assigned the value read through such a pointer.
func (e *castEvalV) argHeader(ptr ssa.Value) bool {
	base, cast := stripPtrCastsV(ptr)
	if cast && e.argCell(base) {
		return true
	}
	a, ok := base.(*ssa.Alloc)
	if !ok || cast {
		return false
	}
	cs := cellStoresOfV(a)
	if cs.escapes || len(cs.field) != 0 || len(cs.whole) != 1 {
		return false
	}
	ld, ok := cs.whole[0].Val.(*ssa.UnOp)
	if !ok || ld.Op != token.MUL {
		return false
	}
	b2, cast2 := stripPtrCastsV(ld.X)
	return cast2 && e.argCell(b2)
}

// headerWord: v is word i (0 data, 1 length) of the argument's header.
func (e *castEvalV) headerWord(v ssa.Value, i int) bool {
	ld, ok := v.(*ssa.UnOp)
	if !ok || ld.Op != token.MUL {
		return false
	}
	fa, ok := ld.X.(*ssa.FieldAddr)
	if !ok || fa.Field != i {
		return false
	}
	st, _ := fa.X.Type().Underlying().(*types.Pointer)
	if st == nil || headerWordsV(st.Elem()) < 2 {
		return false
	}
	return e.argHeader(fa.X)
}

// dataPtr: v is the address of the first byte of the argument (facts: the branch facts of the place it is used at).
func (e *castEvalV) dataPtr(v ssa.Value, facts []ir.Fact) (bool, string) {
	switch x := v.(type) {
	case *ssa.Call:
		if b, ok := x.Call.Value.(*ssa.Builtin); ok && (b.Name() == "SliceData" || b.Name() == "StringData") && len(x.Call.Args) == 1 {
			if e.isArg(x.Call.Args[0]) {
				return true, ""
			}
			return false, "the data pointer is taken from something else than the argument"
		}
	case *ssa.IndexAddr:
		if k, isC := ir.ConstInt(x.Index); isC && k == 0 && e.isArg(x.X) {
			if e.lenFact(facts) > 0 {
				return true, ""
			}
			return false, "&arg[0] is evaluated without a test that the argument is not empty"
		}
	case *ssa.Convert:
		// (*byte)(unsafe.Pointer(hdr.Data))
		if inner, ok := x.X.(*ssa.Convert); ok && e.dataWord(inner.X, facts) {
			return true, ""
		}
	}
	return false, "the data pointer is not recognised as that of the argument"
}

// dataWord: v is the data pointer of the argument as a number.
func (e *castEvalV) dataWord(v ssa.Value, facts []ir.Fact) bool {
	if e.headerWord(v, 0) {
		return true
	}
	if cv, ok := v.(*ssa.Convert); ok {
		if inner, ok := cv.X.(*ssa.Convert); ok {
			if ok, _ := e.dataPtr(inner.X, facts); ok {
				return true
			}
		}
		if ok, _ := e.dataPtr(cv.X, facts); ok {
			return true
		}
	}
	return false
}

func (e *castEvalV) lenWord(v ssa.Value) bool {
	return e.headerWord(v, 1) || e.isLenOfArg(v)
}

// result classifies value v returned by (or flowing to a return of) the conversion.
func (e *castEvalV) result(v ssa.Value, facts []ir.Fact, at ssa.Instruction, depth int) (castVerdictV, string) {
	if v == nil {
		return castUnknownV, "no result"
	}
	if depth > 6 {
		return castUnknownV, "the result is built too deeply"
	}
	if e.isArg(v) && types.Identical(v.Type(), e.p.Type()) {
		return castOKV, ""
	}
	switch x := v.(type) {
	case *ssa.Phi:
		worst, why := castOKV, ""
		for i, ed := range x.Edges {
			pred := x.Block().Preds[i]
			fs := append([]ir.Fact{}, ir.Facts(pred)...)
			if ef := ir.EdgeFact(pred, x.Block()); ef != nil {
				fs = append(fs, *ef)
			}
			if r, w := e.result(ed, fs, at, depth+1); r > worst {
				worst, why = r, w
			}
		}
		return worst, why
	case *ssa.Const:
		empty := x.Value == nil || (x.Value.Kind() == constant.String && constant.StringVal(x.Value) == "")
		if !empty {
			return castForeignV, "it returns the constant " + x.Name()
		}
		if e.lenFact(facts) < 0 {
			return castOKV, ""
		}
		return castForeignV, "it returns the empty value without a test that the argument is empty"
	case *ssa.ChangeType:
		return e.result(x.X, facts, at, depth+1)
	case *ssa.Convert:
		if isByteSeqB(x.Type()) && isByteSeqB(x.X.Type()) {
			if e.isArg(x.X) {
				return castOKV, "" // string(b) / []byte(s): a copy of all the bytes
			}
			return e.result(x.X, facts, at, depth+1)
		}
		if isIntTypeB(x.X.Type()) {
			return castForeignV, "it returns string(number): the UTF-8 encoding of a code point, which for 0x80..0xFF is two bytes that occur nowhere in the argument"
		}
		return castUnknownV, "an unrecognised conversion"
	case *ssa.Call:
		if b, ok := x.Call.Value.(*ssa.Builtin); ok {
			if (b.Name() == "String" || b.Name() == "Slice") && len(x.Call.Args) == 2 {
				fs := append(append([]ir.Fact{}, facts...), ir.Facts(x.Block())...)
				if !e.isLenOfArg(x.Call.Args[1]) {
					return castForeignV, "the view it returns does not have the length of the argument"
				}
				if ok, why := e.dataPtr(x.Call.Args[0], fs); !ok {
					if g := addrRootGlobalV(x.Call.Args[0]); g != nil {
						return castForeignV, "the view it returns is over the package-level variable " + g.Name()
					}
					return castUnknownV, why
				}
				return castOKV, ""
			}
			return castUnknownV, "the result of the builtin " + b.Name()
		}
		cal := ir.StaticCallee(x)
		if cal != nil && len(cal.Blocks) > 0 && cal.Pkg == e.fn.Pkg && len(cal.Params) == 1 && len(x.Call.Args) == 1 && e.isArg(x.Call.Args[0]) && cal != e.fn {
			sub := &castEvalV{fn: cal, p: cal.Params[0]}
			worst, why := castOKV, ""
			for _, ep := range ir.ExitPoints(cal) {
				if r, w := sub.result(ep.Result(0), ep.Facts(), ep.Ret, depth+2); r > worst {
					worst, why = r, w
				}
			}
			return worst, why
		}
		return castUnknownV, "the result of a call of " + ir.CalleeFullName(x)
	case *ssa.UnOp:
		if x.Op != token.MUL {
			return castUnknownV, "an unrecognised operation"
		}
		if g := addrRootGlobalV(x.X); g != nil {
			return castForeignV, "it returns a value read from the package-level variable " + g.Name() + ", not the bytes of the argument"
		}
		base, _ := stripPtrCastsV(x.X)
		a, ok := base.(*ssa.Alloc)
		if !ok {
			return castUnknownV, "a value loaded from an address the rule does not follow"
		}
		want := headerWordsV(x.Type())
		if want == 0 {
			return castUnknownV, "a load of an unexpected type"
		}
		cs := cellStoresOfV(a)
		if cs.escapes {
			return castUnknownV, "the address of the cell the result is read from escapes"
		}
		elem := a.Type().Underlying().(*types.Pointer).Elem()
		have := headerWordsV(elem)
		if have == 0 {
			return castUnknownV, "the result is read from a cell that is not laid out like a string or slice header"
		}
		if len(cs.field) == 0 {
			// the cell holds one value as a whole: it must be the argument
			if len(cs.whole) != 1 || !e.isArg(cs.whole[0].Val) {
				if len(cs.whole) == 1 {
					return e.result(cs.whole[0].Val, facts, at, depth+1)
				}
				return castUnknownV, "the cell the result is read from is assigned more than once"
			}
			if want > have {
				return castForeignV, "it reads a three-word slice header from the two-word cell of a string: the capacity of the result is whatever follows in memory"
			}
			return castOKV, ""
		}
		if len(cs.whole) != 0 {
			return castUnknownV, "the header the result is read from is assigned both as a whole and by fields"
		}
		if want > have {
			return castForeignV, "it reads a slice header from a cell that has only the two words of a string header"
		}
		names := []string{"data pointer", "length", "capacity"}
		for i := 0; i < want; i++ {
			sts := cs.field[i]
			if len(sts) == 0 {
				return castForeignV, "the " + names[i] + " of the header it returns is never set"
			}
			if len(sts) != 1 || !ir.Dominates(sts[0], x) {
				return castUnknownV, "the " + names[i] + " of the header is set more than once or not on every path"
			}
			val := sts[0].Val
			fs := append(append([]ir.Fact{}, facts...), ir.Facts(sts[0].Block())...)
			good := false
			if i == 0 {
				good = e.dataWord(val, fs)
			} else {
				good = e.lenWord(val)
			}
			if !good {
				for cv, isCv := val.(*ssa.Convert); isCv && isIntTypeB(cv.Type()) && isIntTypeB(cv.X.Type()); cv, isCv = val.(*ssa.Convert) {
					val = cv.X // a number converted between integer types is still the same word
				}
				if _, isC := val.(*ssa.Const); isC || e.headerWord(val, 0) || e.headerWord(val, 1) || e.isLenOfArg(val) || addrRootGlobalV(val) != nil {
					return castForeignV, "the " + names[i] + " of the header it returns is not the " + strings.Replace(names[i], "capacity", "length", 1) + " of the argument"
				}
				return castUnknownV, "the " + names[i] + " of the header is set to a value the rule does not recognise"
			}
		}
		return castOKV, ""
	case *ssa.MakeSlice, *ssa.Slice, *ssa.BinOp, *ssa.Alloc:
		return castUnknownV, "a value built by " + strings.TrimPrefix(strings.TrimPrefix(typeNameV(v), "*ssa."), "ssa.")
	}
	return castUnknownV, "an unrecognised result"
}

func typeNameV(v ssa.Value) string {
	switch v.(type) {
	case *ssa.MakeSlice:
		return "make"
	case *ssa.Slice:
		return "a slice expression"
	case *ssa.BinOp:
		return "an operator"
	case *ssa.Alloc:
		return "an allocation"
	}
	return "an instruction"
}

// addrRootGlobalV: the address (or loaded value) v is derived from a package-level variable by field/element addressing
// and loads: the value comes out of that variable.
func addrRootGlobalV(v ssa.Value) *ssa.Global {
	for i := 0; i < 12 && v != nil; i++ {
		switch x := v.(type) {
		case *ssa.Global:
			return x
		case *ssa.IndexAddr:
			v = x.X
		case *ssa.FieldAddr:
			v = x.X
		case *ssa.Index:
			v = x.X
		case *ssa.Field:
			v = x.X
		case *ssa.Lookup:
			v = x.X
		case *ssa.UnOp:
			if x.Op != token.MUL {
				return nil
			}
			v = x.X
		case *ssa.Convert:
			v = x.X
		case *ssa.ChangeType:
			v = x.X
		case *ssa.Slice:
			v = x.X
		default:
			return nil
		}
	}
	return nil
}
