package rules

import (
	"go/token"
	"go/types"
	"strings"

	"golang.org/x/tools/go/ssa"

	"verif/checker/ir"
)

// ---------------------------------------------------------------------------
// Round g, seed C04-g3: refusal states besides the permanent shutdown.
//   role provider.done   the channel field Shutdown closes, when the provider has several channel fields
//   openFact             also through a boolean predicate of the package whose `false` implies "done is open"
//   C04.R12              a token helper that fails after it took the token keeps the token only when it has seen the
//                        PERMANENT shutdown

// providerDoneVG resolves the role "provider.done": the provider's channel field; among several, the one Shutdown closes.
func (c *Ctx) providerDoneVG(r *lockRoles) *types.Var {
	chans := fieldsWhere(r.provider, func(f *types.Var) bool { _, ok := f.Type().Underlying().(*types.Chan); return ok })
	if len(chans) <= 1 {
		return c.oneField("provider.done", r.provider, func(f *types.Var) bool { _, ok := f.Type().Underlying().(*types.Chan); return ok })
	}
	var closed []*types.Var
	if sd := c.P.MethodOf(r.provider, "Shutdown"); sd != nil {
		ir.Instrs(sd, func(in ssa.Instruction) {
			if cc := builtinCall(in, "close"); cc != nil {
				if f := ir.LoadedField(cc.Args[0]); f != nil {
					for _, ch := range chans {
						if ch == f {
							closed = appendUniq(closed, f)
						}
					}
				}
			}
		})
	}
	if len(closed) != 1 {
		c.Fatalf("role %q: the provider has %d channel fields and Shutdown closes %d of them", "provider.done", len(chans), len(closed))
	}
	c.Role("provider.done", closed[0].Name(), closed[0].Pos())
	return closed[0]
}

// isOpenedCallVG: v is chans.IsOpened(done) on the provider's shutdown channel.
func (r *lockRoles) isOpenedCallVG(v ssa.Value) bool {
	call, ok := v.(*ssa.Call)
	return ok && strings.HasSuffix(ir.CalleeFullName(call), "chans.IsOpened") && len(call.Call.Args) == 1 && ir.LoadedField(call.Call.Args[0]) == r.doneF
}

// closedFactBaseVG: the fact says chans.IsOpened(done) returned false.
func (r *lockRoles) closedFactBaseVG(f ir.Fact) bool {
	ff := f.StripNot()
	if !ff.True && r.isOpenedCallVG(ff.Cond) {
		return true
	}
	// a pure poll of the shutdown channel (one receive case plus default) took the receive: the opposite of openFact
	if bo, ok := ff.Cond.(*ssa.BinOp); ok && (bo.Op == token.EQL || bo.Op == token.NEQ) {
		if ex, isEx := ir.Resolve(bo.X).(*ssa.Extract); isEx && ex.Index == 0 {
			if sel, isSel := ex.Tuple.(*ssa.Select); isSel && !sel.Blocking && len(sel.States) == 1 {
				return r.openFact(ir.Fact{Cond: ff.Cond, True: !ff.True})
			}
		}
	}
	return false
}

// predicateImpliesVG: the fact is "P(...) == truth" for a boolean function P of the package, and whenever P returns
// `truth`, `holds` is a fact at that exit (every exit point of P whose result may be `truth`).
func (r *lockRoles) predicateImpliesVG(f ir.Fact, holds func(ir.Fact) bool) bool {
	ff := f.StripNot()
	call, ok := ff.Cond.(*ssa.Call)
	if !ok {
		return false
	}
	cal := calleeYA(call)
	if cal == nil || len(cal.Blocks) == 0 || cal.Pkg != r.unlock.Pkg || cal.Signature.Results().Len() != 1 ||
		!types.Identical(cal.Signature.Results().At(0).Type().Underlying(), types.Typ[types.Bool]) {
		return false
	}
	eps := ir.ExitPoints(cal)
	if len(eps) == 0 {
		return false
	}
	for _, e := range eps {
		res := e.Result(0)
		if res == nil {
			return false
		}
		if b := ir.ConstVal(ir.Resolve(res)); b != nil && (b.String() == "true") != ff.True {
			continue // this exit returns the other value
		}
		if !e.HasFact(holds) {
			return false
		}
	}
	return true
}

// openByPredicateVG: `P() == false` where P false implies that the shutdown channel was found open (`isClosed()`:
// `!IsOpened(done) || somethingElse`), or `P() == true` where P true implies it.
func (r *lockRoles) openByPredicateVG(f ir.Fact) bool {
	return r.predicateImpliesVG(f, func(g ir.Fact) bool {
		gg := g.StripNot()
		return gg.True && r.isOpenedCallVG(gg.Cond)
	})
}

// donePermanentVG: the shutdown channel field is assigned only where a provider is constructed (a store into a freshly
// allocated provider): the channel a Locker reads is the one Shutdown closes, and a closed channel stays closed.
func (r *lockRoles) donePermanentVG() bool {
	ok := true
	for _, fn := range r.all {
		ir.Instrs(fn, func(in ssa.Instruction) {
			base, _, isSt := storeToField(in, r.doneF)
			if !isSt {
				return
			}
			if _, fresh := ir.Resolve(base).(*ssa.Alloc); !fresh {
				ok = false
			}
		})
	}
	return ok
}

// permanentShutdownFactVG: the fact says the permanent shutdown was observed: IsOpened(done) == false, or a predicate
// whose answer implies that on every way it can give it.
func (r *lockRoles) permanentShutdownFactVG(f ir.Fact) bool {
	if r.closedFactBaseVG(f) {
		return true
	}
	return r.predicateImpliesVG(f, r.closedFactBaseVG)
}

// tokenKeptOnlyAfterShutdown is C04.R12. A token helper that has received the local token and then refuses (returns an
// error) leaves the Locker without its token unless it puts it back: nobody can ever acquire through this Locker again
// (TryLock false for ever, Lock blocks on a free lock). That is harmless - and is what the code does - when the refusal
// is the permanent shutdown: after Shutdown no attempt acquires anyway (the documented exemption of R1). It is not
// harmless for any other refusal: a state that can be called off (draining, paused, rate limit ...) ends, the provider
// works again, and the Locker whose helper dropped the token is dead although the lock is free. So on every path from the
// token receive to a failing exit of the helper the token is sent back, except the paths that have found the shutdown
// channel closed - a channel assigned only at construction, tested directly or through a predicate whose `true` implies
// "closed" on every way it can be true (`!IsOpened(done) || draining` does not).
func (c *Ctx) tokenKeptOnlyAfterShutdown(r *lockRoles, rule string) {
	const construct = "token kept by a refusing helper only after the permanent shutdown"
	send := ir.NewEffects(c.P, r.tokenSend)
	permanent := r.donePermanentVG()
	what := "a token helper can fail after it took the local token, without putting it back, on a path that has not found the shutdown channel closed (the only refusal that lasts for ever): when the refusing state is called off the Locker has lost its token - TryLock returns false and Lock blocks for ever although the lock is free and every holder has unlocked"
	n := 0
	var hs []*ssa.Function
	for h := range r.tokenHelpers {
		hs = append(hs, h)
	}
	sortFnsVG(hs)
	for _, h := range hs {
		h := h
		// the tests of h whose outcome can say "the shutdown channel is closed for good"
		type test struct {
			v     ssa.Value
			truth bool
		}
		var closedTests []test
		if permanent {
			ir.Instrs(h, func(in ssa.Instruction) {
				v, ok := in.(ssa.Value)
				if !ok {
					return
				}
				switch in.(type) {
				case *ssa.Call, *ssa.BinOp:
				default:
					return
				}
				for _, t := range []bool{true, false} {
					if r.permanentShutdownFactVG(ir.Fact{Cond: v, True: t}) {
						closedTests = append(closedTests, test{v, t})
					}
				}
			})
		}
		if !r.takesTokenVG(h) {
			continue
		}
		n++
		wit, werr := r.afterTokenVG(h, send.Is, func(ret *ssa.Return, val *ir.Valuation) bool {
			if possibleSuccessExit(h, ret) && !exitFailsOnPathYA(h, ret, val) {
				return false // not a refusal
			}
			for _, t := range closedTests {
				if k, known := val.Known(t.v); known && k == t.truth {
					return false // the permanent shutdown was seen on this path
				}
			}
			return true
		})
		switch {
		case werr != nil:
			c.Undecided(rule, h, construct, nil, werr.Error())
		case wit != nil:
			c.Decide(rule, h, construct, wit.End, false, what+": path "+wit.String(c.P))
		default:
			c.Decide(rule, h, construct, nil, true, "")
		}
	}
	if n == 0 {
		c.Decide(rule, r.tryLock, construct, nil, false, "no token helper with a token receive found")
	}
}

func sortFnsVG(l []*ssa.Function) {
	for i := 1; i < len(l); i++ {
		for j := i; j > 0 && l[j].Pos() < l[j-1].Pos(); j-- {
			l[j], l[j-1] = l[j-1], l[j]
		}
	}
}

// takesTokenVG: fn receives from the Locker's token channel.
func (r *lockRoles) takesTokenVG(fn *ssa.Function) bool {
	found := false
	ir.Instrs(fn, func(in ssa.Instruction) {
		if r.tokenRecv(in) {
			found = true
		}
	})
	return found
}

// afterTokenVG looks for a path of fn that starts at a receive of the local token, has taken the token (for a select:
// the path knows that the token case was chosen - the case body may be empty, so this is decided per path, not by a
// block), passes no instruction for which stop holds, and arrives at a return for which target holds.
func (r *lockRoles) afterTokenVG(fn *ssa.Function, stop func(ssa.Instruction) bool, target func(*ssa.Return, *ir.Valuation) bool) (*ir.Witness, error) {
	var recvs []ssa.Instruction
	ir.Instrs(fn, func(in ssa.Instruction) {
		if r.tokenRecv(in) {
			recvs = append(recvs, in)
		}
	})
	for _, rv := range recvs {
		rv := rv
		tokIdx := -1
		sel, isSel := rv.(*ssa.Select)
		if isSel {
			for i, st := range sel.States {
				if st.Dir == types.RecvOnly {
					if _, ok := loadOfField(st.Chan, r.tokenF); ok {
						tokIdx = i
					}
				}
			}
		}
		q := ir.PathQuery{Fn: fn, From: rv,
			Stop: func(x ssa.Instruction) bool { return stop(x) || (x != rv && r.tokenRecv(x)) },
			Target: func(x ssa.Instruction, val *ir.Valuation) bool {
				ret, ok := x.(*ssa.Return)
				if !ok || !ir.IsReturn(x) {
					return false
				}
				if isSel {
					if k, known := selectCaseOnPath(val, sel); !known || k != tokIdx {
						return false // another case of the select (or not decided which): the token was not taken
					}
				}
				return target(ret, val)
			}}
		if w, err := q.Find(); w != nil || err != nil {
			return w, err
		}
	}
	return nil, nil
}
