package rules

// Generic helpers of the codec rules (C15/C16): symbolic linear expressions over SSA values (offsets and lengths of
// slices), a small prover "guard facts imply a <= b", induction variables with their loop invariants, phi refinement by
// correlated flags, classification of exits (error or ok-flag), and an abstract interpreter (interval of the argument,
// constants for everything else) of pure integer functions.

import (
	"fmt"
	"go/constant"
	"go/token"
	"go/types"
	"math/big"
	"os"
	"sort"
	"strings"

	"golang.org/x/tools/go/ssa"

	"verif/checker/ir"
)

// debugDumpB prints the SSA and the guard facts of the functions of pkg named in VERIF_DUMP_B (comma separated short
// names). Debugging aid only; it never influences a verdict.
func debugDumpB(c *Ctx, pkgs ...string) {
	want := os.Getenv("VERIF_DUMP_B")
	if want == "" {
		return
	}
	names := map[string]bool{}
	for _, n := range strings.Split(want, ",") {
		names[strings.TrimSpace(n)] = true
	}
	for _, pk := range pkgs {
		for _, fn := range c.P.FuncsOf(pk) {
			if !names[ir.FnName(fn)] && !names[fn.Name()] {
				continue
			}
			fn.WriteTo(os.Stdout)
			for _, b := range fn.Blocks {
				var fs []string
				for _, f := range factsB(b, 0) {
					fs = append(fs, fmt.Sprintf("%s=%t", f.Cond.Name(), f.True))
				}
				fmt.Printf("facts[%d]: %s\n", b.Index, strings.Join(fs, " "))
			}
		}
	}
}

// ---------------------------------------------------------------------------
// linear expressions

// linB is k + sum coeff*atom. Atoms are SSA values that are not decomposed further (parameters, call results, loop
// variables, the length of a slice that is not cut from something known, a conversion of an expression).
type linB struct {
	t    map[string]int64
	vals map[string]ssa.Value // atom -> a representative SSA value
	k    int64
}

func linConstB(k int64) linB { return linB{t: map[string]int64{}, vals: map[string]ssa.Value{}, k: k} }

func linAtomB(key string, v ssa.Value) linB {
	return linB{t: map[string]int64{key: 1}, vals: map[string]ssa.Value{key: v}}
}

func (a linB) add(b linB, sign int64) linB {
	r := linB{t: map[string]int64{}, vals: map[string]ssa.Value{}, k: a.k + sign*b.k}
	for k, c := range a.t {
		r.t[k] = c
		r.vals[k] = a.vals[k]
	}
	for k, c := range b.t {
		r.t[k] += sign * c
		if r.vals[k] == nil {
			r.vals[k] = b.vals[k]
		}
		if r.t[k] == 0 {
			delete(r.t, k)
			delete(r.vals, k)
		}
	}
	return r
}

func (a linB) scale(f int64) linB {
	r := linB{t: map[string]int64{}, vals: map[string]ssa.Value{}, k: a.k * f}
	if f == 0 {
		return r
	}
	for k, c := range a.t {
		r.t[k] = c * f
		r.vals[k] = a.vals[k]
	}
	return r
}

func (a linB) isConst() (int64, bool) { return a.k, len(a.t) == 0 }

func (a linB) equal(b linB) bool {
	d := a.add(b, -1)
	k, isC := d.isConst()
	return isC && k == 0
}

// single returns the atom when the expression is exactly one atom (coefficient 1, no constant).
func (a linB) single() (string, ssa.Value, bool) {
	if a.k != 0 || len(a.t) != 1 {
		return "", nil, false
	}
	for k, c := range a.t {
		if c == 1 {
			return k, a.vals[k], true
		}
	}
	return "", nil, false
}

func (a linB) String() string {
	var ks []string
	for k := range a.t {
		ks = append(ks, k)
	}
	sort.Strings(ks)
	var sb strings.Builder
	for _, k := range ks {
		fmt.Fprintf(&sb, "%+d*%s", a.t[k], k)
	}
	fmt.Fprintf(&sb, "%+d", a.k)
	return sb.String()
}

// linCtxB carries the guard facts of the program point the expressions are read at: they select the operand of phi
// nodes that merge alternatives distinguished by a flag or an error that was tested on the way.
type linCtxB struct {
	facts    []ir.Fact
	noCalls  bool                     // do not look into guard helpers (used while summarising one)
	excluded map[*ssa.BasicBlock]bool // blocks that were not executed on the way to the program point
}

// ctxAtB is the context of block b: its guard facts (factsB).
func ctxAtB(b *ssa.BasicBlock) *linCtxB {
	cx := &linCtxB{facts: factsB(b, 0)}
	cx.extend(nil, 0)
	return cx
}

// ctxOfB is the context of a program point described by a list of facts.
func ctxOfB(fs []ir.Fact) *linCtxB {
	cx := &linCtxB{facts: append([]ir.Fact{}, fs...)}
	cx.extend(nil, 0)
	return cx
}

// plainFactsB are the branch facts on the dominator chain of b: for every dominator with a single predecessor that ends in
// a two-way branch, the condition of the edge taken. They are about SSA values whose definitions dominate the edge, so
// they hold at b for the values of the current activation / iteration.
func plainFactsB(b *ssa.BasicBlock) []ir.Fact {
	var res []ir.Fact
	for d := b; d != nil; d = d.Idom() {
		if len(d.Preds) == 1 {
			if f := ir.EdgeFact(d.Preds[0], d); f != nil {
				res = append(res, *f)
			}
		}
	}
	return res
}

// factsB: the guard facts at block b. The plain facts, extended by what is known once a tested flag / error value merged
// by phi nodes - or a join of branches on already decided conditions - leaves a single way the control can have come:
// then the facts of that predecessor hold as well, except those about values that are computed again after it (values
// defined in or below a loop header when the predecessor is its back edge).
func factsB(b *ssa.BasicBlock, depth int) []ir.Fact {
	cx := &linCtxB{facts: plainFactsB(b)}
	cx.extend(b, depth)
	return cx.facts
}

// definedUnderB: v is (computed from) a value defined in a block dominated by blk.
func definedUnderB(v ssa.Value, blk *ssa.BasicBlock, depth int) bool {
	in, ok := v.(ssa.Instruction)
	if !ok || in.Block() == nil {
		return false
	}
	if blk.Dominates(in.Block()) {
		return true
	}
	if depth > 8 {
		return true
	}
	if _, isPhi := v.(*ssa.Phi); isPhi {
		return false
	}
	for _, op := range in.Operands(nil) {
		if *op != nil && definedUnderB(*op, blk, depth+1) {
			return true
		}
	}
	return false
}

func importFactsB(fs []ir.Fact, merge *ssa.BasicBlock) []ir.Fact {
	var out []ir.Fact
	for _, f := range fs {
		if !definedUnderB(f.Cond, merge, 0) {
			out = append(out, f)
		}
	}
	return out
}

// phiEdgeFeasible: which operands of the phi nodes of one block are compatible with the facts.
func (cx *linCtxB) feasibleEdges(blk *ssa.BasicBlock) ([]bool, bool) {
	feasible := make([]bool, len(blk.Preds))
	for i := range feasible {
		feasible[i] = true
	}
	constrained := false
	for _, f := range cx.facts {
		ff := f.StripNot()
		if q, isPhi := ff.Cond.(*ssa.Phi); isPhi && q.Block() == blk {
			for j, e := range q.Edges {
				if c, isC := e.(*ssa.Const); isC && c.Value != nil && c.Value.Kind() == constant.Bool {
					if constant.BoolVal(c.Value) != ff.True {
						feasible[j] = false
						constrained = true
					}
				} else if kb, known := cx.knownBool(e, q); known && kb != ff.True {
					// the operand is a value the facts already decide ("!done" with done known)
					feasible[j] = false
					constrained = true
				}
			}
			continue
		}
		if cm, isCmp := f.Cmp(); isCmp {
			// an integer merged from several ways and compared with a constant (a count with 0 as "not found"): a way that
			// brings a constant - or a value with a known constant lower bound - the comparison excludes was not taken
			if cx.intPhiEdgesG(cm, blk, feasible) {
				constrained = true
			}
		}
		if cm, isCmp := f.Cmp(); isCmp && (cm.Op == token.EQL || cm.Op == token.NEQ) {
			x, y := cm.X, cm.Y
			if ir.IsNilConst(x) {
				x, y = y, x
			}
			q, isPhi := x.(*ssa.Phi)
			if !isPhi || !ir.IsNilConst(y) || q.Block() != blk {
				continue
			}
			for j, e := range q.Edges {
				cls := ir.ErrNil
				if !ir.IsNilConst(e) {
					cls = ir.ErrUnknown
					if errKnownNonNilB(e) {
						cls = ir.ErrNonNil
					} else if ir.IsErrorType(e.Type()) {
						cls = ir.ClassifyErr(e, blk.Preds[j])
					}
				}
				if cm.Op == token.EQL && cls == ir.ErrNonNil {
					feasible[j] = false
					constrained = true
				}
				if cm.Op == token.NEQ && cls == ir.ErrNil {
					feasible[j] = false
					constrained = true
				}
			}
		}
	}
	return feasible, constrained
}

// knownBool: the truth of boolean value e according to the facts (through negations); facts about the phi being resolved
// itself are not used.
func (cx *linCtxB) knownBool(e ssa.Value, except *ssa.Phi) (val, ok bool) {
	ef := ir.Fact{Cond: e, True: true}.StripNot()
	if ef.Cond == ssa.Value(except) {
		return false, false
	}
	for _, f := range cx.facts {
		ff := f.StripNot()
		if ff.Cond == ef.Cond {
			return ff.True == ef.True, true
		}
	}
	return false, false
}

// extend closes the facts: (1) for every merge block whose phi nodes the facts constrain to a single incoming edge, the
// facts of that predecessor, of the edge, and the truth of the flag operand that arrived; (2) with an anchor block: for
// every join on its dominator chain all but one of whose incoming branch edges contradict the facts, the same for the
// remaining predecessor. Records the predecessors of excluded edges.
func (cx *linCtxB) extend(anchor *ssa.BasicBlock, depth int) {
	if cx.excluded == nil {
		cx.excluded = map[*ssa.BasicBlock]bool{}
	}
	if depth > 3 {
		return
	}
	done := map[*ssa.BasicBlock]bool{}
	take := func(pred, merge *ssa.BasicBlock) {
		cx.facts = append(cx.facts, importFactsB(factsB(pred, depth+1), merge)...)
		if ef := ir.EdgeFact(pred, merge); ef != nil && !definedUnderB(ef.Cond, merge, 0) {
			cx.facts = append(cx.facts, *ef)
		}
	}
	for round := 0; round < 4; round++ {
		added := false
		blocks := map[*ssa.BasicBlock]bool{}
		var order []*ssa.BasicBlock
		note := func(q *ssa.Phi) {
			if !blocks[q.Block()] {
				blocks[q.Block()] = true
				order = append(order, q.Block())
			}
		}
		for _, f := range cx.facts {
			ff := f.StripNot()
			if q, isPhi := ff.Cond.(*ssa.Phi); isPhi {
				note(q)
			}
			if cm, isCmp := f.Cmp(); isCmp {
				for _, v := range []ssa.Value{cm.X, cm.Y} {
					if q, isPhi := v.(*ssa.Phi); isPhi {
						note(q)
					}
				}
			}
		}
		for _, blk := range order {
			if done[blk] {
				continue
			}
			feasible, constrained := cx.feasibleEdges(blk)
			if !constrained {
				continue
			}
			n, last := 0, -1
			for j, ok := range feasible {
				if ok {
					n++
					last = j
				} else if p := blk.Preds[j]; len(p.Succs) == 1 {
					cx.excluded[p] = true
				}
			}
			// the flag operands that can have arrived: when they are all the same value, it has the truth of the flag
			for _, f := range cx.facts {
				ff := f.StripNot()
				q, isPhi := ff.Cond.(*ssa.Phi)
				if !isPhi || q.Block() != blk {
					continue
				}
				var e ssa.Value
				same := true
				for j, ok := range feasible {
					if !ok {
						continue
					}
					if e != nil && e != q.Edges[j] {
						same = false
					}
					e = q.Edges[j]
				}
				if _, isC := e.(*ssa.Const); e != nil && same && !isC && !cx.hasFact(e, ff.True) {
					cx.facts = append(cx.facts, ir.Fact{Cond: e, True: ff.True})
					added = true
				}
			}
			if n != 1 {
				continue
			}
			done[blk] = true
			take(blk.Preds[last], blk)
			added = true
		}
		if anchor != nil {
			for d := anchor; d != nil; d = d.Idom() {
				if len(d.Preds) < 2 || done[d] {
					continue
				}
				n, last := 0, -1
				for j, p := range d.Preds {
					contradicted := false
					if ef := ir.EdgeFact(p, d); ef != nil && !definedUnderB(ef.Cond, d, 0) {
						if kb, known := cx.knownBool(ef.Cond, nil); known && kb != ef.True {
							contradicted = true
						}
					}
					if !contradicted {
						n++
						last = j
					}
				}
				if n == 1 {
					done[d] = true
					take(d.Preds[last], d)
					added = true
				}
			}
		}
		if !added {
			break
		}
	}
}

func (cx *linCtxB) hasFact(v ssa.Value, truth bool) bool {
	want := ir.Fact{Cond: v, True: truth}.StripNot()
	for _, f := range cx.facts {
		ff := f.StripNot()
		if ff.Cond == want.Cond && ff.True == want.True {
			return true
		}
	}
	return false
}

// refine resolves v at the context: value-preserving wrappers, loads of fields of local structs written once, and phi
// nodes of which the context's facts leave one incoming alternative.
func (cx *linCtxB) refine(v ssa.Value) ssa.Value {
	for i := 0; i < 16 && v != nil; i++ {
		v = ir.Resolve(v)
		if fv := cx.localFieldValue(v); fv != nil {
			v = fv
			continue
		}
		p, ok := v.(*ssa.Phi)
		if !ok {
			return v
		}
		e := cx.selectEdge(p)
		if e == nil {
			return v
		}
		v = e
	}
	return v
}

// selectEdge returns the only operand of p that is compatible with the facts about the phi nodes merged in the same
// block (boolean flags with constant operands, error values with nil / known non-nil operands), or nil.
func (cx *linCtxB) selectEdge(p *ssa.Phi) ssa.Value {
	if cx == nil || isLoopHeaderB(p.Block()) {
		return nil // a loop variable is not an alternative: its operands are values of the previous iteration
	}
	feasible, constrained := cx.feasibleEdges(p.Block())
	if !constrained {
		return nil
	}
	var res ssa.Value
	n := 0
	for j, ok := range feasible {
		if ok {
			res = p.Edges[j]
			n++
		}
	}
	if n != 1 {
		return nil
	}
	return res
}

// errKnownNonNilB: a freshly made error (fmt.Errorf, errors.New, a repository helper all of whose returns are fresh errors).
func errKnownNonNilB(v ssa.Value) bool {
	v = ir.Resolve(v)
	switch x := v.(type) {
	case *ssa.Call:
		switch ir.CalleeFullName(x) {
		case "fmt.Errorf", "errors.New":
			return true
		}
		if cal := ir.StaticCallee(x); cal != nil && alwaysNonNilError(cal) {
			return true
		}
	case *ssa.MakeInterface:
		return true
	case *ssa.UnOp:
		if g, ok := x.X.(*ssa.Global); ok && x.Op == token.MUL && ir.IsErrorType(g.Type().(*types.Pointer).Elem()) {
			return true
		}
	}
	return false
}

// localFieldValue: v loads field f of a local struct variable (or extracts it from a struct value loaded from one) whose
// field f has exactly one definition among the stores that can have been executed on the way (a direct store to the
// field, or a whole-struct store of a value whose field is known the same way). Returns the stored value, or nil.
func (cx *linCtxB) localFieldValue(v ssa.Value) ssa.Value {
	var cell ssa.Value
	var idx int
	switch x := v.(type) {
	case *ssa.UnOp:
		if x.Op != token.MUL {
			return nil
		}
		fa, ok := x.X.(*ssa.FieldAddr)
		if !ok {
			return nil
		}
		cell, idx = fa.X, fa.Field
	case *ssa.Field:
		ld, ok := x.X.(*ssa.UnOp)
		if !ok || ld.Op != token.MUL {
			return cx.structFieldOfValue(x.X, x.Field, 0)
		}
		cell, idx = ld.X, x.Field
	default:
		return nil
	}
	return cx.cellField(cell, idx, 0)
}

// cellField: the single value field idx of the struct in local cell addr can hold.
func (cx *linCtxB) cellField(addr ssa.Value, idx int, depth int) ssa.Value {
	al, ok := addr.(*ssa.Alloc)
	if !ok || depth > 6 || al.Referrers() == nil {
		return nil
	}
	skip := func(in ssa.Instruction) bool { return cx != nil && cx.excluded[in.Block()] }
	var vals []ssa.Value
	for _, r := range *al.Referrers() {
		switch x := r.(type) {
		case *ssa.Store:
			if x.Addr != ssa.Value(al) {
				return nil // the address escapes into memory
			}
			if skip(x) {
				continue
			}
			fv := cx.structFieldOfValue(x.Val, idx, depth+1)
			if fv == nil {
				return nil
			}
			vals = append(vals, fv)
		case *ssa.FieldAddr:
			if x.Referrers() == nil {
				continue
			}
			for _, rr := range *x.Referrers() {
				switch y := rr.(type) {
				case *ssa.Store:
					if y.Addr != ssa.Value(x) {
						return nil
					}
					if x.Field == idx && !skip(y) {
						vals = append(vals, y.Val)
					}
				case *ssa.UnOp, *ssa.DebugRef:
				default:
					if x.Field == idx {
						return nil // the field's address is used otherwise
					}
				}
			}
		case *ssa.UnOp, *ssa.DebugRef:
		default:
			return nil // the struct's address is passed on
		}
	}
	var res ssa.Value
	for _, v := range vals {
		if res != nil && res != v {
			return nil
		}
		res = v
	}
	return res
}

// structFieldOfValue: field idx of the struct VALUE v (a load of a local cell, or a zero constant).
func (cx *linCtxB) structFieldOfValue(v ssa.Value, idx int, depth int) ssa.Value {
	if depth > 6 {
		return nil
	}
	switch x := v.(type) {
	case *ssa.UnOp:
		if x.Op == token.MUL {
			return cx.cellField(x.X, idx, depth+1)
		}
	case *ssa.Const:
		if st, ok := x.Type().Underlying().(*types.Struct); ok && x.Value == nil && idx < st.NumFields() {
			return zeroConstOfB(st.Field(idx).Type())
		}
	case *ssa.Phi:
		if e := cx.selectEdge(x); e != nil {
			return cx.structFieldOfValue(e, idx, depth+1)
		}
	}
	return nil
}

func zeroConstOfB(t types.Type) ssa.Value {
	if b, ok := t.Underlying().(*types.Basic); ok && b.Info()&types.IsInteger != 0 {
		return ssa.NewConst(constant.MakeInt64(0), t)
	}
	return nil
}

func (cx *linCtxB) of(v ssa.Value) linB { return cx.ofDepth(v, 0) }

func (cx *linCtxB) ofDepth(v ssa.Value, depth int) linB {
	if v == nil {
		return linConstB(0)
	}
	v = cx.refine(v)
	if depth > 12 {
		return linAtomB("v:"+v.Name(), v)
	}
	switch x := v.(type) {
	case *ssa.Const:
		if k, ok := ir.ConstInt(x); ok {
			return linConstB(k)
		}
	case *ssa.BinOp:
		switch x.Op {
		case token.ADD:
			return cx.ofDepth(x.X, depth+1).add(cx.ofDepth(x.Y, depth+1), 1)
		case token.SUB:
			return cx.ofDepth(x.X, depth+1).add(cx.ofDepth(x.Y, depth+1), -1)
		case token.MUL:
			a, b := cx.ofDepth(x.X, depth+1), cx.ofDepth(x.Y, depth+1)
			if k, isC := a.isConst(); isC {
				return b.scale(k)
			}
			if k, isC := b.isConst(); isC {
				return a.scale(k)
			}
		}
	case *ssa.Convert:
		if isIntTypeB(x.Type()) && isIntTypeB(x.X.Type()) {
			in := cx.ofDepth(x.X, depth+1)
			if k, isC := in.isConst(); isC {
				return linConstB(k)
			}
			return linAtomB("cv:"+x.Type().String()+"("+in.String()+")", v)
		}
	case *ssa.Call:
		if cc := builtinCall(x, "len"); cc != nil {
			return cx.lenOf(cc.Args[0], depth+1)
		}
	}
	// a field of a struct parameter / unmodified local copy of one: every read is the same value
	if r := ir.FieldRoot(v); strings.HasPrefix(r, "param ") {
		return linAtomB("fr:"+r, v)
	}
	return linAtomB("v:"+v.Name(), v)
}

func isIntTypeB(t types.Type) bool {
	b, ok := t.Underlying().(*types.Basic)
	return ok && b.Info()&types.IsInteger != 0
}

func isUnsignedTypeB(t types.Type) bool {
	b, ok := t.Underlying().(*types.Basic)
	return ok && b.Info()&types.IsUnsigned != 0
}

// lenOf is the length of the slice / string / array value s as a linear expression.
func (cx *linCtxB) lenOf(s ssa.Value, depth int) linB {
	s = cx.refine(s)
	if depth > 12 {
		return linAtomB("len:"+s.Name(), s)
	}
	if arr, ok := derefArray(s.Type()); ok {
		return linConstB(arr.Len())
	}
	switch x := s.(type) {
	case *ssa.Slice:
		lo := linConstB(0)
		if x.Low != nil {
			lo = cx.ofDepth(x.Low, depth+1)
		}
		var hi linB
		if x.High != nil {
			hi = cx.ofDepth(x.High, depth+1)
		} else {
			hi = cx.lenOf(x.X, depth+1)
		}
		return hi.add(lo, -1)
	case *ssa.MakeSlice:
		return cx.ofDepth(x.Len, depth+1)
	case *ssa.Const:
		if x.Value == nil {
			return linConstB(0)
		}
		if x.Value.Kind() == constant.String {
			return linConstB(int64(len(constant.StringVal(x.Value))))
		}
	case *ssa.Convert:
		// string <-> []byte keep the length
		if isByteSeqB(x.Type()) && isByteSeqB(x.X.Type()) {
			return cx.lenOf(x.X, depth+1)
		}
	}
	return linAtomB("len:"+s.Name(), s)
}

func isByteSeqB(t types.Type) bool {
	switch u := t.Underlying().(type) {
	case *types.Basic:
		return u.Info()&types.IsString != 0
	case *types.Slice:
		return types.Identical(u.Elem(), types.Typ[types.Byte])
	}
	return false
}

// sliceExtent describes a slice value as a window [lo,hi) of the root value it is cut from (through any number of slice
// expressions). root is the resolved base (a parameter, an array cell, a made slice).
func (cx *linCtxB) sliceExtent(v ssa.Value) (root ssa.Value, lo, hi linB) {
	v = cx.refine(v)
	s, ok := v.(*ssa.Slice)
	if !ok {
		return v, linConstB(0), cx.lenOf(v, 0)
	}
	root, blo, bhi := cx.sliceExtent(s.X)
	l := blo
	if s.Low != nil {
		l = blo.add(cx.of(s.Low), 1)
	}
	h := bhi
	if s.High != nil {
		h = blo.add(cx.of(s.High), 1)
	}
	return root, l, h
}

// ---------------------------------------------------------------------------
// induction variables

// affineIndB decodes v as (loop variable + d) where the loop variable is phi(c0, phi+step): the value at the k-th
// evaluation is first + k*step with first = c0+d.
func affineIndB(v ssa.Value) (phi *ssa.Phi, first, step int64, ok bool) {
	v = ir.Resolve(v)
	if p, c0, st, isInd := inductionVar(v); isInd {
		return p, c0, st, true
	}
	if bo, isBin := v.(*ssa.BinOp); isBin && (bo.Op == token.ADD || bo.Op == token.SUB) {
		if d, isC := ir.ConstInt(bo.Y); isC {
			if p, c0, st, isInd := inductionVar(ir.Resolve(bo.X)); isInd {
				if bo.Op == token.SUB {
					d = -d
				}
				return p, c0 + d, st, true
			}
		}
	}
	return nil, 0, 0, false
}

// indBackPredB returns the predecessor of the loop variable's block over which the incremented value arrives.
func indBackPredB(p *ssa.Phi) *ssa.BasicBlock {
	for i, e := range p.Edges {
		if _, isC := ir.ConstInt(e); !isC {
			return p.Block().Preds[i]
		}
	}
	return nil
}

// ---------------------------------------------------------------------------
// "facts imply a <= b"

type leFactB struct {
	e linB  // e <= b
	b int64 //
}

// leFacts turns comparison facts into inequalities e <= b over linear expressions (both operands of one comparison are
// read in the same - signed or unsigned - domain; conversions are atoms, so the domains do not mix).
func (cx *linCtxB) leFacts() []leFactB {
	var res []leFactB
	for _, f := range cx.facts {
		cm, ok := f.Cmp()
		if ok && !cx.noCalls && (cm.Op == token.EQL || cm.Op == token.NEQ) {
			res = append(res, cx.guardHelperFacts(cm)...)
		}
		if !ok || !isIntTypeB(cm.X.Type()) {
			continue
		}
		lx, ly := cx.of(cm.X), cx.of(cm.Y)
		d := lx.add(ly, -1)
		switch cm.Op {
		case token.LEQ:
			res = append(res, leFactB{d, 0})
		case token.LSS:
			res = append(res, leFactB{d, -1})
		case token.GEQ:
			res = append(res, leFactB{d.scale(-1), 0})
		case token.GTR:
			res = append(res, leFactB{d.scale(-1), -1})
		case token.EQL:
			res = append(res, leFactB{d, 0}, leFactB{d.scale(-1), 0})
		case token.NEQ:
			// i != len(s) for a loop variable that never exceeds len(s) is i < len(s); len(s) != 0 is len(s) >= 1
			if e, ok := cx.neqAsLess(cm.X, cm.Y); ok {
				res = append(res, e)
			} else if e, ok := cx.neqAsLess(cm.Y, cm.X); ok {
				res = append(res, e)
			}
		}
	}
	return res
}

// guardHelperFacts: the comparison says that the error returned by a call of a function of the repository is nil
// ("if err := checkRoom(buf, n); err != nil { return }" on the fall-through edge). When that function has exactly one exit
// that returns nil, what its guards establish there about its parameters (and their lengths) holds for the arguments.
func (cx *linCtxB) guardHelperFacts(cm ir.Cmp) []leFactB {
	x, y := cm.X, cm.Y
	if ir.IsNilConst(x) {
		x, y = y, x
	}
	if !ir.IsNilConst(y) || cm.Op != token.EQL {
		return nil
	}
	call, ok := cx.refine(x).(*ssa.Call)
	if !ok {
		return nil
	}
	cal := ir.StaticCallee(call)
	if cal == nil || len(cal.Blocks) == 0 || cal.Signature.Results().Len() != 1 || !ir.IsErrorType(cal.Signature.Results().At(0).Type()) {
		return nil
	}
	if cal.Pkg == nil || !strings.HasPrefix(cal.Pkg.Pkg.Path(), ir.Module) {
		return nil
	}
	var nilExits []exitB
	for _, ep := range exitsOfB(cal) {
		switch exitClassB(cal, ep) {
		case ir.ErrNil:
			nilExits = append(nilExits, ep)
		case ir.ErrUnknown:
			return nil
		}
	}
	if len(nilExits) != 1 {
		return nil
	}
	in := ctxOfB(nilExits[0].Facts)
	in.noCalls = true
	paramIdx := func(v ssa.Value) int {
		for i, p := range cal.Params {
			if ssa.Value(p) == v {
				return i
			}
		}
		return -1
	}
	var res []leFactB
	for _, f := range in.leFacts() {
		out := linConstB(f.e.k)
		good := true
		for key, coeff := range f.e.t {
			i := paramIdx(f.e.vals[key])
			if i < 0 || i >= len(call.Call.Args) {
				good = false
				break
			}
			switch {
			case strings.HasPrefix(key, "len:"):
				out = out.add(cx.lenOf(call.Call.Args[i], 0).scale(coeff), 1)
			case strings.HasPrefix(key, "v:"):
				out = out.add(cx.of(call.Call.Args[i]).scale(coeff), 1)
			default:
				good = false
			}
		}
		if good {
			res = append(res, leFactB{out, f.b})
		}
	}
	return res
}

func (cx *linCtxB) neqAsLess(x, y ssa.Value) (leFactB, bool) {
	ly := cx.of(y)
	if k, isC := ly.isConst(); isC && k == 0 {
		lx := cx.of(x)
		if key, _, ok := lx.single(); ok && strings.HasPrefix(key, "len:") {
			return leFactB{lx.scale(-1), -1}, true // -len <= -1
		}
	}
	p, c0, step, isInd := inductionVar(ir.Resolve(x))
	if !isInd || step != 1 {
		return leFactB{}, false
	}
	if key, _, ok := ly.single(); !ok || !strings.HasPrefix(key, "len:") {
		return leFactB{}, false
	}
	if c0 > 0 || !cx.indNeverExceeds(p, ly) {
		return leFactB{}, false
	}
	return leFactB{cx.of(x).add(ly, -1), -1}, true
}

// indNeverExceeds: loop variable p (start <= 0, step 1) satisfies p <= bound wherever it is defined, because the value
// that flows back into it was tested p < bound (or p != bound, inductively) on the way.
func (cx *linCtxB) indNeverExceeds(p *ssa.Phi, bound linB) bool {
	_, c0, step, ok := inductionVar(p)
	if !ok || step != 1 || c0 > 0 {
		return false
	}
	if key, _, isAtom := bound.single(); !isAtom || !strings.HasPrefix(key, "len:") {
		return false // the bound must be a length (never negative, loop-invariant)
	}
	back := indBackPredB(p)
	if back == nil {
		return false
	}
	me := linAtomB("v:"+p.Name(), p)
	for _, f := range factsB(back, 0) {
		cm, isCmp := f.Cmp()
		if !isCmp {
			continue
		}
		op, x, y := cm.Op, cm.X, cm.Y
		plain := &linCtxB{excluded: map[*ssa.BasicBlock]bool{}}
		lx, ly := plain.of(x), plain.of(y)
		if !lx.equal(me) {
			if !ly.equal(me) {
				continue
			}
			lx, ly = ly, lx
			op = ir.SwapOp(op)
		}
		if !ly.equal(bound) {
			continue
		}
		if op == token.LSS || op == token.NEQ {
			return true
		}
	}
	return false
}

// lowerBound returns a constant L with L <= a, from what is known about the atoms: lengths are >= 0, a loop variable
// with a positive step is >= its start, unsigned values are >= 0.
func (cx *linCtxB) lowerBound(a linB) (int64, bool) {
	lb := a.k
	for key, c := range a.t {
		v := a.vals[key]
		var l int64
		known := false
		switch {
		case strings.HasPrefix(key, "len:"):
			l, known = 0, true
		default:
			if p, c0, step, ok := inductionVar(v); ok && p != nil && step > 0 {
				l, known = c0, true
			} else if v != nil && isUnsignedTypeB(v.Type()) {
				l, known = 0, true
			}
		}
		if !known || c < 0 {
			return 0, false
		}
		lb += c * l
	}
	return lb, true
}

// impliesLE reports whether the facts of the context imply a <= b.
func (cx *linCtxB) impliesLE(a, b linB) bool {
	q := a.add(b, -1)
	if k, isC := q.isConst(); isC {
		return k <= 0
	}
	facts := cx.leFacts()
	// loop invariants of the loop variables the query mentions: p <= len(s)
	for key, v := range q.vals {
		if p, ok := v.(*ssa.Phi); ok && strings.HasPrefix(key, "v:") {
			for k2, v2 := range q.vals {
				if strings.HasPrefix(k2, "len:") {
					bound := linAtomB(k2, v2)
					if cx.indNeverExceeds(p, bound) {
						facts = append(facts, leFactB{linAtomB(key, v).add(bound, -1), 0})
					}
				}
			}
		}
	}
	// loop invariants of the shrinking cursors the query mentions: len(cursor) <= len(what it walks)
	facts = append(facts, cx.cursorInvariantsG(q)...)
	for _, f := range facts {
		d := q.add(f.e, -1)
		if c, isC := d.isConst(); isC && f.b+c <= 0 {
			return true
		}
	}
	// two facts: q = e1 + e2 + c
	for i, f1 := range facts {
		for j, f2 := range facts {
			if j <= i {
				continue
			}
			d := q.add(f1.e, -1).add(f2.e, -1)
			if c, isC := d.isConst(); isC && f1.b+f2.b+c <= 0 {
				return true
			}
		}
	}
	return false
}

// lenAtLeast returns the largest K for which the facts imply len(s) >= K (0 when nothing is known).
func (cx *linCtxB) lenAtLeast(s ssa.Value) int64 {
	L := cx.lenOf(s, 0)
	if k, isC := L.isConst(); isC {
		return k
	}
	best := int64(0)
	for _, f := range cx.leFacts() {
		// f.e = c - L  <= b   =>  L >= c - b
		d := f.e.add(L, 1)
		if c, isC := d.isConst(); isC {
			if c-f.b > best {
				best = c - f.b
			}
		}
	}
	return best
}

// ---------------------------------------------------------------------------
// exits

// exitB is one way a function returns: the values it returns and the guard facts that hold when it does. A function
// written with early returns has one per return statement; one written in single-exit style (result variables assigned in
// the branches, one return at the end) has a return whose operands are phi nodes of a merge block, which is split into
// one exit per incoming alternative that the facts between the merge and the return leave possible. Phi nodes of loop
// headers are loop variables, not alternatives, and are left alone.
type exitB struct {
	Ret     *ssa.Return
	Results []ssa.Value
	Facts   []ir.Fact
	Block   *ssa.BasicBlock // the block that selects the alternative (the return's own block when nothing was split)
}

func (e exitB) Result(i int) ssa.Value {
	if i < 0 || i >= len(e.Results) {
		return nil
	}
	return e.Results[i]
}

func isLoopHeaderB(b *ssa.BasicBlock) bool {
	for _, p := range b.Preds {
		if b.Dominates(p) {
			return true
		}
	}
	return false
}

func exitsOfB(fn *ssa.Function) []exitB {
	var res []exitB
	for _, ret := range ir.Returns(fn) {
		vals := make([]ssa.Value, len(ret.Results))
		for i := range ret.Results {
			vals[i] = ir.ResultValue(ret, i)
		}
		base := exitB{Ret: ret, Results: vals, Facts: factsB(ret.Block(), 0), Block: ret.Block()}
		res = append(res, splitExitB(base, ret.Block(), true, 0)...)
	}
	return res
}

// splitExitB splits e at the merge block of its phi results: at (the block the values are read in) itself, or - for
// the first split only - a merge block that dominates it.
func splitExitB(e exitB, at *ssa.BasicBlock, first bool, depth int) []exitB {
	if depth > 4 {
		return []exitB{e}
	}
	var phiBlock *ssa.BasicBlock
	for _, v := range e.Results {
		if p, ok := v.(*ssa.Phi); ok && !isLoopHeaderB(p.Block()) && (p.Block() == at || (first && p.Block().Dominates(at))) {
			phiBlock = p.Block()
			break
		}
	}
	if phiBlock == nil {
		return []exitB{e}
	}
	feasible, _ := ctxOfB(e.Facts).feasibleEdges(phiBlock)
	var out []exitB
	for j, pred := range phiBlock.Preds {
		if !feasible[j] {
			continue
		}
		rs := make([]ssa.Value, len(e.Results))
		for i, v := range e.Results {
			if p, ok := v.(*ssa.Phi); ok && p.Block() == phiBlock {
				rs[i] = p.Edges[j]
			} else {
				rs[i] = v
			}
		}
		fs := append(append([]ir.Fact{}, e.Facts...), importFactsB(factsB(pred, 0), phiBlock)...)
		if ef := ir.EdgeFact(pred, phiBlock); ef != nil && !definedUnderB(ef.Cond, phiBlock, 0) {
			fs = append(fs, *ef)
		}
		ne := exitB{Ret: e.Ret, Results: rs, Facts: fs, Block: pred}
		out = append(out, splitExitB(ne, pred, false, depth+1)...)
	}
	return out
}

// exitClassB classifies an exit of a function that reports failure through its last error result.
func exitClassB(fn *ssa.Function, ep exitB) ir.ErrClass {
	idx := ir.ErrResultIndex(fn)
	cx := ctxOfB(ep.Facts)
	if idx < 0 {
		// a private helper that reports through a trailing "ok" flag: ok == true is the success exit
		if si := statusIndexB(fn); si >= 0 {
			v := cx.refine(ep.Result(si))
			if c, isC := v.(*ssa.Const); isC && c.Value != nil && c.Value.Kind() == constant.Bool {
				if constant.BoolVal(c.Value) {
					return ir.ErrNil
				}
				return ir.ErrNonNil
			}
			if kb, known := cx.knownBool(v, nil); known {
				if kb {
					return ir.ErrNil
				}
				return ir.ErrNonNil
			}
		}
		return ir.ErrUnknown
	}
	v := cx.refine(ep.Result(idx))
	if v == nil {
		return ir.ErrUnknown
	}
	if ir.IsNilConst(v) {
		return ir.ErrNil
	}
	if errKnownNonNilB(v) {
		return ir.ErrNonNil
	}
	for _, f := range cx.facts {
		if c, ok := f.Cmp(); ok {
			x, y := ir.Resolve(c.X), ir.Resolve(c.Y)
			if (x == v && ir.IsNilConst(y)) || (y == v && ir.IsNilConst(x)) {
				switch c.Op {
				case token.NEQ:
					return ir.ErrNonNil
				case token.EQL:
					return ir.ErrNil
				}
			}
		}
	}
	return ir.ClassifyErr(v, ep.Block)
}

// ---------------------------------------------------------------------------
// an abstract interpreter for pure integer functions (the size function of the codec). The argument under analysis is
// never a concrete input: it is an interval [lo,hi] of values (kind 'v'), and everything that does not depend on it
// (loop counters over a constant table, the table itself, thresholds) is folded as constants. The only operation
// defined on the interval is a comparison with a constant: when the comparison has the same outcome for the whole
// interval the interpreter follows that outcome; when it does not, it stops and names the point at which the interval
// has to be split (the caller refines the partition and starts again on each part). Any other use of the interval is
// "unsupported", so a verdict exists only for functions whose result is constant on every cell of the final partition.

type pureValB struct {
	i   *big.Int
	hi  *big.Int // kind 'v': the interval is [i, hi]
	b   bool
	arr []pureValB // array value
	ptr *pureCellB // pointer
	off int        // element index for pointers into arrays (-1: the cell itself)
	k   byte       // 'i', 'b', 'a', 'p', 'v'
}

type pureCellB struct{ v pureValB }

type pureInterpB struct {
	c        *Ctx
	pkg      *ssa.Package
	globals  map[*ssa.Global]*pureCellB
	steps    int
	split    *big.Int // set when a comparison is not uniform on the interval: the first value of the upper part
	why      string
	depTaint map[*ssa.Function]map[ssa.Value]bool
}

func (pi *pureInterpB) fail(format string, a ...any) bool {
	if pi.why == "" {
		pi.why = fmt.Sprintf(format, a...)
	}
	return false
}

func wrapIntB(x *big.Int, t types.Type, sizes types.Sizes) *big.Int {
	b, ok := t.Underlying().(*types.Basic)
	if !ok || b.Info()&types.IsInteger == 0 {
		return x
	}
	bits := uint(64)
	if sizes != nil {
		bits = uint(sizes.Sizeof(t) * 8)
	}
	mod := new(big.Int).Lsh(big.NewInt(1), bits)
	r := new(big.Int).Mod(x, mod)
	if b.Info()&types.IsUnsigned == 0 {
		half := new(big.Int).Lsh(big.NewInt(1), bits-1)
		if r.Cmp(half) >= 0 {
			r.Sub(r, mod)
		}
	}
	return r
}

// globalCell returns the initial content of a package-level array/integer variable when it is initialised with constants
// in the package initialiser and never written (nor has its address taken for anything but reading) elsewhere.
func (pi *pureInterpB) globalCell(g *ssa.Global) *pureCellB {
	if c, ok := pi.globals[g]; ok {
		return c
	}
	pi.globals[g] = nil
	elem := g.Type().(*types.Pointer).Elem()
	cell := &pureCellB{}
	switch u := elem.Underlying().(type) {
	case *types.Array:
		if !isIntTypeB(u.Elem()) {
			return nil
		}
		cell.v = pureValB{k: 'a', arr: make([]pureValB, u.Len())}
		for i := range cell.v.arr {
			cell.v.arr[i] = pureValB{k: 'i', i: big.NewInt(0)}
		}
	case *types.Basic:
		if u.Info()&types.IsInteger == 0 {
			return nil
		}
		cell.v = pureValB{k: 'i', i: big.NewInt(0)}
	default:
		return nil
	}
	okAll := true
	for _, fn := range pi.c.P.SrcFuncs {
		root := fn
		for root.Parent() != nil {
			root = root.Parent()
		}
		if root.Pkg != g.Pkg {
			continue
		}
		isInit := fn.Name() == "init" && fn.Pkg == g.Pkg
		ir.Instrs(fn, func(in ssa.Instruction) {
			for _, op := range in.Operands(nil) {
				if *op != ssa.Value(g) {
					continue
				}
				switch x := in.(type) {
				case *ssa.IndexAddr:
					for _, r := range *x.Referrers() {
						switch y := r.(type) {
						case *ssa.UnOp:
						case *ssa.DebugRef:
						case *ssa.Store:
							k, isC := y.Val.(*ssa.Const)
							idx, isI := ir.ConstInt(x.Index)
							if !isInit || y.Addr != ssa.Value(x) || !isC || !isI || k.Value == nil || k.Value.Kind() != constant.Int || cell.v.k != 'a' || int(idx) >= len(cell.v.arr) {
								okAll = false
								continue
							}
							bi, _ := new(big.Int).SetString(constant.ToInt(k.Value).ExactString(), 10)
							if bi == nil {
								okAll = false
								continue
							}
							cell.v.arr[idx] = pureValB{k: 'i', i: bi}
						default:
							okAll = false
						}
					}
				case *ssa.UnOp, *ssa.DebugRef:
				case *ssa.Store:
					k, isC := x.Val.(*ssa.Const)
					if !isInit || x.Addr != ssa.Value(g) || !isC || cell.v.k != 'i' || k.Value == nil || k.Value.Kind() != constant.Int {
						okAll = false
					} else if bi, ok := new(big.Int).SetString(constant.ToInt(k.Value).ExactString(), 10); ok {
						cell.v = pureValB{k: 'i', i: bi}
					}
				default:
					okAll = false
				}
			}
		})
	}
	if !okAll {
		return nil
	}
	pi.globals[g] = cell
	return cell
}

// cmpInterval decides "l op r" where one side is the interval and the other a constant. ok=false with pi.split set means
// the outcome differs inside the interval: split names the first value of the upper part.
func (pi *pureInterpB) cmpInterval(op token.Token, l, r pureValB) (res bool, ok bool) {
	if l.k == 'v' && r.k == 'v' {
		return false, pi.fail("the argument is compared with itself")
	}
	if r.k == 'v' { // c op v  ==  v swap(op) c
		l, r = r, l
		op = ir.SwapOp(op)
	}
	if r.k != 'i' {
		return false, pi.fail("the argument is compared with a non-integer")
	}
	lo, hi, c := l.i, l.hi, r.i
	// the set of v with "v op c" true is one of: (-inf,c), (-inf,c], (c,inf), [c,inf), {c}, not {c}
	below := func(t *big.Int) (all, none bool) { // v < t
		return hi.Cmp(t) < 0, lo.Cmp(t) >= 0
	}
	cut := func(t *big.Int, truthBelow bool) (bool, bool) {
		all, none := below(t)
		if all {
			return truthBelow, true
		}
		if none {
			return !truthBelow, true
		}
		pi.split = new(big.Int).Set(t)
		return false, false
	}
	c1 := new(big.Int).Add(c, big.NewInt(1))
	switch op {
	case token.LSS:
		return cut(c, true)
	case token.GEQ:
		return cut(c, false)
	case token.LEQ:
		return cut(c1, true)
	case token.GTR:
		return cut(c1, false)
	case token.EQL, token.NEQ:
		if hi.Cmp(c) < 0 || lo.Cmp(c) > 0 {
			return op == token.NEQ, true
		}
		if lo.Cmp(c) == 0 && hi.Cmp(c) == 0 {
			return op == token.EQL, true
		}
		if lo.Cmp(c) < 0 {
			pi.split = new(big.Int).Set(c)
		} else {
			pi.split = c1
		}
		return false, false
	}
	return false, pi.fail("unsupported comparison")
}

// run interprets fn on args. tracked marks the SSA values (per function) that carry the argument under analysis.
func (pi *pureInterpB) run(fn *ssa.Function, args []pureValB, tracked []bool, depth int) (pureValB, bool) {
	if depth > 8 || len(fn.Blocks) == 0 {
		return pureValB{}, pi.fail("call depth / missing body in %s", fn.Name())
	}
	var sizes types.Sizes
	if len(pi.c.P.Pkgs) > 0 {
		sizes = pi.c.P.Pkgs[0].TypesSizes
	}
	env := map[ssa.Value]pureValB{}
	isTracked := map[ssa.Value]bool{}
	for i, p := range fn.Params {
		if i < len(args) {
			env[p] = args[i]
			if i < len(tracked) && tracked[i] {
				isTracked[p] = true
			}
		}
	}
	val := func(v ssa.Value) (pureValB, bool) {
		switch x := v.(type) {
		case *ssa.Const:
			if x.Value == nil {
				return pureValB{}, false
			}
			switch x.Value.Kind() {
			case constant.Int:
				bi, ok := new(big.Int).SetString(constant.ToInt(x.Value).ExactString(), 10)
				return pureValB{k: 'i', i: bi}, ok
			case constant.Bool:
				return pureValB{k: 'b', b: constant.BoolVal(x.Value)}, true
			}
			return pureValB{}, false
		case *ssa.Global:
			if c := pi.globalCell(x); c != nil {
				return pureValB{k: 'p', ptr: c, off: -1}, true
			}
			return pureValB{}, false
		}
		r, ok := env[v]
		return r, ok
	}
	b := fn.Blocks[0]
	var prev *ssa.BasicBlock
	for {
		// phis first, simultaneously
		newPhis := map[ssa.Value]pureValB{}
		newTr := map[ssa.Value]bool{}
		for _, in := range b.Instrs {
			ph, ok := in.(*ssa.Phi)
			if !ok {
				break
			}
			for j, p := range b.Preds {
				if p == prev {
					pv, ok := val(ph.Edges[j])
					if !ok {
						return pureValB{}, pi.fail("phi operand %s unknown", ph.Edges[j].Name())
					}
					newPhis[ph] = pv
					newTr[ph] = isTracked[ph.Edges[j]]
				}
			}
		}
		for k, v := range newPhis {
			env[k] = v
			isTracked[k] = newTr[k]
		}
		for _, in := range b.Instrs {
			pi.steps++
			if pi.steps > 200000 {
				return pureValB{}, pi.fail("step bound exceeded")
			}
			switch x := in.(type) {
			case *ssa.Phi, *ssa.DebugRef:
			case *ssa.BinOp:
				l, ok1 := val(x.X)
				r, ok2 := val(x.Y)
				if !ok1 || !ok2 {
					return pureValB{}, pi.fail("operand of %s unknown", x.String())
				}
				switch x.Op {
				case token.EQL, token.NEQ, token.LSS, token.LEQ, token.GTR, token.GEQ:
					if l.k == 'b' && r.k == 'b' && (x.Op == token.EQL || x.Op == token.NEQ) {
						env[x] = pureValB{k: 'b', b: (l.b == r.b) == (x.Op == token.EQL)}
						continue
					}
					if l.k == 'v' || r.k == 'v' {
						res, ok := pi.cmpInterval(x.Op, l, r)
						if !ok {
							return pureValB{}, false
						}
						env[x] = pureValB{k: 'b', b: res}
						continue
					}
					if l.k != 'i' || r.k != 'i' {
						return pureValB{}, pi.fail("comparison of non-integers %s", x.String())
					}
					c := l.i.Cmp(r.i)
					var res bool
					switch x.Op {
					case token.EQL:
						res = c == 0
					case token.NEQ:
						res = c != 0
					case token.LSS:
						res = c < 0
					case token.LEQ:
						res = c <= 0
					case token.GTR:
						res = c > 0
					case token.GEQ:
						res = c >= 0
					}
					env[x] = pureValB{k: 'b', b: res}
				case token.ADD, token.SUB, token.MUL:
					if l.k != 'i' || r.k != 'i' {
						return pureValB{}, pi.fail("arithmetic on non-integers %s", x.String())
					}
					z := new(big.Int)
					switch x.Op {
					case token.ADD:
						z.Add(l.i, r.i)
					case token.SUB:
						z.Sub(l.i, r.i)
					case token.MUL:
						z.Mul(l.i, r.i)
					}
					env[x] = pureValB{k: 'i', i: wrapIntB(z, x.Type(), sizes)}
				default:
					return pureValB{}, pi.fail("unsupported operation %s", x.String())
				}
			case *ssa.UnOp:
				o, ok := val(x.X)
				if !ok {
					return pureValB{}, pi.fail("operand of %s unknown", x.String())
				}
				switch x.Op {
				case token.NOT:
					env[x] = pureValB{k: 'b', b: !o.b}
				case token.MUL:
					if o.k != 'p' || o.ptr == nil {
						return pureValB{}, pi.fail("load through unknown pointer %s", x.String())
					}
					if o.off >= 0 {
						if o.ptr.v.k != 'a' || o.off >= len(o.ptr.v.arr) {
							return pureValB{}, pi.fail("index out of range in %s", x.String())
						}
						env[x] = o.ptr.v.arr[o.off]
					} else {
						cp := o.ptr.v
						if cp.k == 'a' {
							cp.arr = append([]pureValB{}, cp.arr...)
						}
						env[x] = cp
					}
				default:
					return pureValB{}, pi.fail("unsupported operation %s", x.String())
				}
			case *ssa.Alloc:
				env[x] = pureValB{k: 'p', ptr: &pureCellB{}, off: -1}
			case *ssa.Store:
				a, ok1 := val(x.Addr)
				v, ok2 := val(x.Val)
				if !ok1 || !ok2 || a.k != 'p' || a.ptr == nil {
					return pureValB{}, pi.fail("unsupported store %s", x.String())
				}
				if _, isGlobal := x.Addr.(*ssa.Global); isGlobal {
					return pureValB{}, pi.fail("store to a global")
				}
				for _, gc := range pi.globals {
					if gc == a.ptr {
						return pureValB{}, pi.fail("store to a global")
					}
				}
				if a.off >= 0 {
					if a.ptr.v.k != 'a' || a.off >= len(a.ptr.v.arr) {
						return pureValB{}, pi.fail("store out of range")
					}
					a.ptr.v.arr[a.off] = v
				} else {
					a.ptr.v = v
				}
			case *ssa.IndexAddr:
				a, ok1 := val(x.X)
				i, ok2 := val(x.Index)
				if !ok1 || !ok2 || a.k != 'p' || a.ptr == nil || i.k != 'i' || !i.i.IsInt64() {
					return pureValB{}, pi.fail("unsupported element address %s", x.String())
				}
				if a.ptr.v.k != 'a' || i.i.Int64() < 0 || int(i.i.Int64()) >= len(a.ptr.v.arr) {
					return pureValB{}, pi.fail("index out of range in %s", x.String())
				}
				env[x] = pureValB{k: 'p', ptr: a.ptr, off: int(i.i.Int64())}
			case *ssa.Index:
				a, ok1 := val(x.X)
				i, ok2 := val(x.Index)
				if !ok1 || !ok2 || a.k != 'a' || i.k != 'i' || !i.i.IsInt64() || i.i.Int64() < 0 || int(i.i.Int64()) >= len(a.arr) {
					return pureValB{}, pi.fail("unsupported index %s", x.String())
				}
				env[x] = a.arr[i.i.Int64()]
			case *ssa.Convert:
				o, ok := val(x.X)
				if !ok || o.k != 'i' || !isIntTypeB(x.Type()) {
					return pureValB{}, pi.fail("unsupported conversion %s", x.String())
				}
				env[x] = pureValB{k: 'i', i: wrapIntB(o.i, x.Type(), sizes)}
				// a conversion that can change the value ends the tracking (the static discipline rejects it anyway)
			case *ssa.ChangeType:
				o, ok := val(x.X)
				if !ok {
					return pureValB{}, pi.fail("operand of %s unknown", x.String())
				}
				env[x] = o
				isTracked[x] = isTracked[x.X]
			case *ssa.Call:
				if cc := builtinCall(x, "len"); cc != nil {
					if arr, ok := derefArray(cc.Args[0].Type()); ok {
						env[x] = pureValB{k: 'i', i: big.NewInt(arr.Len())}
						continue
					}
					return pureValB{}, pi.fail("len of a non-array")
				}
				cal := ir.StaticCallee(x)
				if cal == nil || cal.Pkg != pi.pkg || len(cal.Blocks) == 0 {
					return pureValB{}, pi.fail("call of %s", ir.CalleeFullName(x))
				}
				var as []pureValB
				var tr []bool
				for _, a := range x.Call.Args {
					av, ok := val(a)
					if !ok {
						return pureValB{}, pi.fail("argument of %s unknown", x.String())
					}
					as = append(as, av)
					tr = append(tr, isTracked[a])
				}
				rv, ok := pi.run(cal, as, tr, depth+1)
				if !ok {
					return pureValB{}, false
				}
				env[x] = rv
			case *ssa.If:
				cv, ok := val(x.Cond)
				if !ok || cv.k != 'b' {
					return pureValB{}, pi.fail("branch condition unknown")
				}
				prev = b
				if cv.b {
					b = b.Succs[0]
				} else {
					b = b.Succs[1]
				}
			case *ssa.Jump:
				prev, b = b, b.Succs[0]
			case *ssa.Return:
				if len(x.Results) != 1 {
					return pureValB{}, pi.fail("not a single result")
				}
				rv, ok := val(x.Results[0])
				if !ok {
					return pureValB{}, pi.fail("result unknown")
				}
				return rv, true
			default:
				return pureValB{}, pi.fail("unsupported instruction %s", in.String())
			}
		}
	}
}

// comparedOnlyB checks the static discipline behind the exhaustiveness argument: the value of parameter idx of fn is used
// only as an operand of comparisons whose other operand does not depend on it, or handed on to a function of the same
// package under the same discipline.
func comparedOnlyB(fn *ssa.Function, idx int, pkg *ssa.Package, seen map[*ssa.Function]map[int]bool) (bool, string) {
	if seen[fn] == nil {
		seen[fn] = map[int]bool{}
	}
	if seen[fn][idx] {
		return true, ""
	}
	seen[fn][idx] = true
	if idx >= len(fn.Params) || len(fn.Blocks) == 0 {
		return false, "no such parameter"
	}
	tainted := map[ssa.Value]bool{fn.Params[idx]: true}
	// copies through phis / type changes / spills to locals are the same value
	for changed := true; changed; {
		changed = false
		ir.Instrs(fn, func(in ssa.Instruction) {
			v, ok := in.(ssa.Value)
			if !ok || tainted[v] {
				return
			}
			switch x := in.(type) {
			case *ssa.Phi:
				for _, e := range x.Edges {
					if tainted[e] {
						tainted[v] = true
						changed = true
					}
				}
			case *ssa.ChangeType:
				if tainted[x.X] {
					tainted[v] = true
					changed = true
				}
			}
		})
	}
	ok, why := true, ""
	ir.Instrs(fn, func(in ssa.Instruction) {
		if !ok {
			return
		}
		uses := false
		for _, op := range in.Operands(nil) {
			if *op != nil && tainted[*op] {
				uses = true
			}
		}
		if !uses {
			return
		}
		switch x := in.(type) {
		case *ssa.Phi, *ssa.ChangeType, *ssa.DebugRef:
		case *ssa.BinOp:
			if _, isCmp := ir.AsCmp(x); !isCmp {
				ok, why = false, "the argument is used in "+x.String()
				return
			}
			if tainted[x.X] && tainted[x.Y] {
				ok, why = false, "the argument is compared with itself in "+x.String()
			}
		case *ssa.Call:
			cal := ir.StaticCallee(x)
			if cal == nil || cal.Pkg != pkg || len(cal.Blocks) == 0 {
				ok, why = false, "the argument is passed to "+ir.CalleeFullName(x)
				return
			}
			for i, a := range x.Call.Args {
				if tainted[a] {
					if sub, w := comparedOnlyB(cal, i, pkg, seen); !sub {
						ok, why = false, w
					}
				}
			}
		default:
			ok, why = false, "the argument is used in "+in.String()
		}
	})
	return ok, why
}

// ---------------------------------------------------------------------------
// what a method of the stream writer hands to its io.Writer

// writeEvB is one Write on the underlying writer: the slice value written (in the terms of the function asked about) and,
// when that slice is a window of an array (the scratch buffer), the array's access path and the window.
type writeEvB struct {
	at     ssa.Instruction
	val    ssa.Value
	path   string
	lo, hi linB
	region bool
}

// writeEventsB lists the writes fn performs: Writer.Write(x) itself, and calls of methods of the same receiver that do
// nothing but such a write of a parameter or of a window of a receiver array bounded by constants / parameters (flush(n),
// WritePureBytes(v)).
func writeEventsB(fn *ssa.Function, depth int) []writeEvB {
	var res []writeEvB
	ir.Instrs(fn, func(in ssa.Instruction) {
		call, ok := in.(*ssa.Call)
		if !ok {
			return
		}
		cx := ctxAtB(call.Block())
		if call.Call.IsInvoke() {
			if call.Call.Method.Name() == "Write" && len(call.Call.Args) == 1 {
				ev := writeEvB{at: call, val: cx.refine(call.Call.Args[0])}
				root, lo, hi := cx.sliceExtent(call.Call.Args[0])
				if _, isArr := derefArray(root.Type()); isArr {
					ev.path, ev.lo, ev.hi, ev.region = ir.Path(root), lo, hi, true
				}
				res = append(res, ev)
			}
			return
		}
		cal := ir.StaticCallee(call)
		if cal == nil || len(cal.Blocks) == 0 || depth >= 2 || cal.Signature.Recv() == nil || fn.Signature.Recv() == nil {
			return
		}
		if !types.Identical(cal.Signature.Recv().Type(), fn.Signature.Recv().Type()) || len(call.Call.Args) == 0 || ir.Path(call.Call.Args[0]) != "recv" {
			return
		}
		sub := writeEventsB(cal, depth+1)
		if len(sub) != 1 || !onlyWritesB(cal, sub[0]) {
			return
		}
		paramIdx := func(v ssa.Value) int {
			for i, p := range cal.Params {
				if ssa.Value(p) == v {
					return i
				}
			}
			return -1
		}
		translate := func(l linB) (linB, bool) {
			out := linConstB(l.k)
			for key, coeff := range l.t {
				i := paramIdx(l.vals[key])
				if i < 0 || !strings.HasPrefix(key, "v:") {
					return linB{}, false
				}
				out = out.add(cx.of(call.Call.Args[i]).scale(coeff), 1)
			}
			return out, true
		}
		ev := writeEvB{at: call}
		if i := paramIdx(sub[0].val); i >= 0 {
			ev.val = cx.refine(call.Call.Args[i])
			root, lo, hi := cx.sliceExtent(ev.val)
			if _, isArr := derefArray(root.Type()); isArr {
				ev.path, ev.lo, ev.hi, ev.region = ir.Path(root), lo, hi, true
			}
			res = append(res, ev)
			return
		}
		if sub[0].region && strings.HasPrefix(sub[0].path, "recv.") {
			lo, ok1 := translate(sub[0].lo)
			hi, ok2 := translate(sub[0].hi)
			if ok1 && ok2 {
				ev.path, ev.lo, ev.hi, ev.region = sub[0].path, lo, hi, true
				res = append(res, ev)
			}
		}
	})
	return res
}

// onlyWritesB: the function consists of the one write and returns its results (no other call, no store).
func onlyWritesB(fn *ssa.Function, ev writeEvB) bool {
	ok := true
	ir.Instrs(fn, func(in ssa.Instruction) {
		switch x := in.(type) {
		case *ssa.Call:
			if ssa.Instruction(x) != ev.at {
				ok = false
			}
		case *ssa.Store, *ssa.Go, *ssa.Defer, *ssa.Send, *ssa.MapUpdate, *ssa.Panic:
			ok = false
		case *ssa.Return:
			for _, r := range x.Results {
				rv := ir.Resolve(r)
				if ex, isEx := rv.(*ssa.Extract); isEx && ssa.Instruction(ex.Tuple.(ssa.Instruction)) == ev.at {
					continue
				}
				if in2, isIn := rv.(ssa.Instruction); isIn && in2 == ev.at {
					continue
				}
				ok = false
			}
		}
	})
	return ok
}
