package rules

// A small abstract evaluator over go/ssa (prefix sx): partial evaluation of a handful of small pure functions over a
// FINITE abstract domain chosen by the rule (the 17 gRPC codes and the class variables as identity tokens, booleans,
// string constants), in the manner of package ai (which C18 uses). It lets a rule decide WHAT such a function maps each
// element of that domain to instead of HOW the mapping is spelled (map literal, table built by an initialiser, switch,
// helper). Values outside the domain stay uninterpreted terms (structural identity, calls treated as pure); the results
// of calls that are not followed (other packages, interface methods) are either fixed by the rule for the scenario
// ("status.Code(err) is 5") or stay terms. A branch on a term that is not a constant forks, and the driver enumerates
// every vector of choices (bounded): each yields one sxPath with the branch decisions, the calls into the environment
// and the returned abstract values (or a panic). Maps, slices, arrays and structs built from constants and tokens are
// modelled exactly, so the package initialiser that builds the lookup tables can be evaluated (sxInit) and a function
// that ranges over such a table sees its content. No program is run: there are no inputs, only the finite domain.
//
// The evaluator never guesses: an instruction or a situation it does not model ends the evaluation with an error (the
// caller reports the obligation as undecided or violated, never as discharged).

import (
	"fmt"
	"go/constant"
	"go/token"
	"go/types"
	"sort"
	"strings"

	"golang.org/x/tools/go/ssa"
)

// ---------------------------------------------------------------------------
// values

type sxVal interface{ key() string }

// sxConst is an exactly known constant; v == nil is nil / the zero value of a non-basic type.
type sxConst struct{ v constant.Value }

// sxTerm is an uninterpreted term; structural identity.
type sxTerm struct {
	op   string
	args []sxVal
	k    string
}

// sxGlob is the value a package-level variable holds, as an identity token (the rule says for which variables the
// identity is what matters: distinct tokens are distinct non-nil values, which the rule has to justify).
type sxGlob struct{ g *ssa.Global }

// sxObj is a memory cell.
type sxObj struct {
	id    int
	epoch int
	val   sxVal
}

// sxPtr is the address of (a part of) a cell.
type sxPtr struct {
	obj  *sxObj
	path []int
}

// sxAggr is a struct or array value.
type sxAggr struct{ elems []sxVal }

// sxSlice is a slice of a concrete backing array (arr == nil: the nil slice).
type sxSlice struct {
	arr    *sxObj
	lo, hi int
}

type sxMapEntry struct{ k, v sxVal }

type sxMapObj struct {
	id      int
	epoch   int
	entries []sxMapEntry
}

// sxMap is a map value (m == nil: the nil map).
type sxMap struct{ m *sxMapObj }

type sxTuple struct{ elems []sxVal }

type sxFunc struct{ fn *ssa.Function }

type sxIter struct {
	entries []sxMapEntry
	pos     *int
}

func (c sxConst) key() string {
	if c.v == nil {
		return "nil"
	}
	return c.v.ExactString()
}
func (t *sxTerm) key() string { return t.k }
func (g sxGlob) key() string  { return "var:" + g.g.Name() }
func (p sxPtr) key() string {
	s := fmt.Sprintf("&obj%d", p.obj.id)
	for _, i := range p.path {
		s += fmt.Sprintf(".%d", i)
	}
	return s
}
func (a sxAggr) key() string {
	var s []string
	for _, e := range a.elems {
		s = append(s, e.key())
	}
	return "{" + strings.Join(s, ",") + "}"
}
func (s sxSlice) key() string {
	if s.arr == nil {
		return "nilslice"
	}
	return fmt.Sprintf("obj%d[%d:%d]", s.arr.id, s.lo, s.hi)
}
func (m sxMap) key() string {
	if m.m == nil {
		return "nilmap"
	}
	return fmt.Sprintf("map%d", m.m.id)
}
func (t sxTuple) key() string {
	var s []string
	for _, e := range t.elems {
		s = append(s, e.key())
	}
	return "(" + strings.Join(s, ",") + ")"
}
func (f sxFunc) key() string { return "func:" + f.fn.String() }
func (i sxIter) key() string { return "iter" }

func sxT(op string, args ...sxVal) *sxTerm {
	var s []string
	for _, a := range args {
		s = append(s, a.key())
	}
	return &sxTerm{op: op, args: args, k: op + "(" + strings.Join(s, ",") + ")"}
}

func sxBool(b bool) sxVal    { return sxConst{constant.MakeBool(b)} }
func sxInt(i int64) sxVal    { return sxConst{constant.MakeInt64(i)} }
func sxStr(s string) sxVal   { return sxConst{constant.MakeString(s)} }
func sxNil() sxVal           { return sxConst{nil} }
func sxIsNil(v sxVal) bool   { c, ok := v.(sxConst); return ok && c.v == nil }
func sxParam(n string) sxVal { return sxT("param:" + n) }

func sxAsBool(v sxVal) (bool, bool) {
	c, ok := v.(sxConst)
	if !ok || c.v == nil || c.v.Kind() != constant.Bool {
		return false, false
	}
	return constant.BoolVal(c.v), true
}

func sxAsInt(v sxVal) (int64, bool) {
	c, ok := v.(sxConst)
	if !ok || c.v == nil || c.v.Kind() != constant.Int {
		return 0, false
	}
	return constant.Int64Val(c.v)
}

func sxAsString(v sxVal) (string, bool) {
	c, ok := v.(sxConst)
	if !ok || c.v == nil || c.v.Kind() != constant.String {
		return "", false
	}
	return constant.StringVal(c.v), true
}

// sxIsTerm reports whether v is the term op(...) and returns it.
func sxIsTerm(v sxVal, op string) *sxTerm {
	t, ok := v.(*sxTerm)
	if !ok || t.op != op {
		return nil
	}
	return t
}

// sxStripConv removes value-preserving wrappers (conversions between string and []byte, named/unnamed types) and the
// calls the rule declares to be conversions.
func sxStripConv(v sxVal, isConvCall func(op string) bool) sxVal {
	for {
		t, ok := v.(*sxTerm)
		if !ok || len(t.args) != 1 {
			return v
		}
		if strings.HasPrefix(t.op, "conv:") || (isConvCall != nil && strings.HasPrefix(t.op, "call:") && isConvCall(strings.TrimPrefix(t.op, "call:"))) {
			v = t.args[0]
			continue
		}
		return v
	}
}

// sxConcat flattens a string concatenation term into its operands.
func sxConcat(v sxVal) []sxVal {
	if t := sxIsTerm(v, "+"); t != nil && len(t.args) == 2 {
		return append(sxConcat(t.args[0]), sxConcat(t.args[1])...)
	}
	return []sxVal{v}
}

// ---------------------------------------------------------------------------
// environment, paths

type sxCond struct {
	atom   sxVal
	taken  bool
	ncalls int // number of environment calls made before the decision
}

func (c sxCond) String() string {
	if c.taken {
		return c.atom.key()
	}
	return "!" + c.atom.key()
}

type sxCall struct {
	name string // full name of the callee ("strings.Split"), "invoke:<Method>" for interface calls
	args []sxVal
	res  sxVal
}

// sxPath is one execution.
type sxPath struct {
	ret      []sxVal
	panicked bool
	conds    []sxCond
	calls    []sxCall
}

// has reports whether the path took the decision (atom, taken).
func (p *sxPath) has(atomKey string, taken bool) bool {
	for _, c := range p.conds {
		if c.atom.key() == atomKey && c.taken == taken {
			return true
		}
	}
	return false
}

func (p *sxPath) String() string {
	var cs []string
	for _, c := range p.conds {
		cs = append(cs, c.String())
	}
	res := "return"
	if p.panicked {
		res = "panic"
	}
	for _, r := range p.ret {
		res += " " + r.key()
	}
	return "[" + strings.Join(cs, " && ") + "] -> " + res
}

// sxEnv configures the executor.
type sxEnv struct {
	// follow: interpret the body of a static callee (default: never).
	follow func(fn *ssa.Function) bool
	// call supplies the result of a call that is not followed; nil result: an uninterpreted term.
	call func(name string, args []sxVal) sxVal
	// token: loads of this package-level variable yield the identity token of the variable.
	token func(g *ssa.Global) bool
	// nonNil: v (a term) is known not to be nil.
	nonNil func(v sxVal) bool
	// onMapKey is told every key a map is indexed or updated with (fn: the function the instruction is in).
	onMapKey func(fn *ssa.Function, in ssa.Instruction, key sxVal)

	// entered, when not nil, collects the functions whose bodies were executed.
	entered map[*ssa.Function]bool

	globals  map[*ssa.Global]*sxObj // package-level variables written by sxInit
	maxSteps int
	maxPaths int

	epoch int
	ids   int
}

func (e *sxEnv) newID() int { e.ids++; return e.ids }

type sxGiveUp struct{ msg string }

type sxRun struct {
	env     *sxEnv
	choices []bool
	used    int
	steps   int
	decided map[string]bool
	path    *sxPath
}

func (r *sxRun) fail(format string, a ...any) {
	panic(sxGiveUp{fmt.Sprintf(format, a...)})
}

func (r *sxRun) choose() bool {
	if r.used < len(r.choices) {
		b := r.choices[r.used]
		r.used++
		return b
	}
	r.choices = append(r.choices, false)
	r.used++
	return false
}

// sxExplore enumerates the executions of fn on args.
func sxExplore(env *sxEnv, fn *ssa.Function, args []sxVal) (paths []*sxPath, err error) {
	maxPaths := env.maxPaths
	if maxPaths == 0 {
		maxPaths = 512
	}
	prefix := []bool{}
	for iter := 0; ; iter++ {
		if iter >= maxPaths {
			return paths, fmt.Errorf("more than %d paths in %s", maxPaths, fn.Name())
		}
		env.epoch++
		r := &sxRun{env: env, choices: append([]bool{}, prefix...), decided: map[string]bool{}, path: &sxPath{}}
		var ret []sxVal
		var panicked bool
		func() {
			defer func() {
				if x := recover(); x != nil {
					if g, ok := x.(sxGiveUp); ok {
						err = fmt.Errorf("%s", g.msg)
						return
					}
					panic(x)
				}
			}()
			ret, panicked = r.call(fn, args, 0)
		}()
		if err != nil {
			return paths, err
		}
		r.path.ret, r.path.panicked = ret, panicked
		paths = append(paths, r.path)
		v := r.choices[:r.used]
		i := len(v) - 1
		for i >= 0 && v[i] {
			i--
		}
		if i < 0 {
			return paths, nil
		}
		prefix = append(append([]bool{}, v[:i]...), true)
	}
}

var sxErrInitPanics = fmt.Errorf("package initialiser panics")

// sxInit executes the package initialiser of pkg (only the bodies follow() admits are entered) and leaves the
// package-level variables it wrote in env.globals. The initialiser must be straight-line for the executor (no fork).
func sxInit(env *sxEnv, pkg *ssa.Package) error {
	init := pkg.Func("init")
	if init == nil || len(init.Blocks) == 0 {
		return fmt.Errorf("package %s has no initialiser body", pkg.Pkg.Name())
	}
	if env.globals == nil {
		env.globals = map[*ssa.Global]*sxObj{}
	}
	saved := env.maxPaths
	env.maxPaths = 1
	defer func() { env.maxPaths = saved }()
	paths, err := sxExplore(env, init, nil)
	if err != nil {
		return err
	}
	if len(paths) != 1 {
		return fmt.Errorf("package initialiser is not straight-line")
	}
	if paths[0].panicked {
		return sxErrInitPanics
	}
	if len(paths[0].conds) > 0 {
		return fmt.Errorf("package initialiser branches on %s", paths[0].conds[0].atom.key())
	}
	return nil
}

// ---------------------------------------------------------------------------
// memory

func sxZero(t types.Type) sxVal {
	switch u := t.Underlying().(type) {
	case *types.Basic:
		switch {
		case u.Info()&types.IsBoolean != 0:
			return sxBool(false)
		case u.Info()&types.IsInteger != 0:
			return sxInt(0)
		case u.Info()&types.IsString != 0:
			return sxStr("")
		case u.Info()&types.IsFloat != 0:
			return sxConst{constant.MakeFloat64(0)}
		}
	case *types.Struct:
		a := sxAggr{}
		for i := 0; i < u.NumFields(); i++ {
			a.elems = append(a.elems, sxZero(u.Field(i).Type()))
		}
		return a
	case *types.Array:
		a := sxAggr{}
		if u.Len() > 1<<12 {
			return sxT("bigarray")
		}
		for i := int64(0); i < u.Len(); i++ {
			a.elems = append(a.elems, sxZero(u.Elem()))
		}
		return a
	case *types.Slice:
		return sxSlice{}
	case *types.Map:
		return sxMap{}
	}
	return sxNil()
}

func (r *sxRun) newObj(v sxVal) *sxObj {
	return &sxObj{id: r.env.newID(), epoch: r.env.epoch, val: v}
}

func (r *sxRun) loadAt(v sxVal, path []int) sxVal {
	for _, i := range path {
		a, ok := v.(sxAggr)
		if !ok || i < 0 || i >= len(a.elems) {
			r.fail("load of a part of a non-aggregate value %s", v.key())
		}
		v = a.elems[i]
	}
	return v
}

func (r *sxRun) storeAt(v sxVal, path []int, nv sxVal) sxVal {
	if len(path) == 0 {
		return nv
	}
	a, ok := v.(sxAggr)
	if !ok || path[0] < 0 || path[0] >= len(a.elems) {
		r.fail("store into a part of a non-aggregate value %s", v.key())
	}
	na := sxAggr{elems: append([]sxVal{}, a.elems...)}
	na.elems[path[0]] = r.storeAt(a.elems[path[0]], path[1:], nv)
	return na
}

func (r *sxRun) globalObj(g *ssa.Global) *sxObj {
	if r.env.globals == nil {
		r.env.globals = map[*ssa.Global]*sxObj{}
	}
	o, ok := r.env.globals[g]
	if !ok {
		var init sxVal
		if g.Pkg != nil && r.env.follow != nil && r.ownPkg(g.Pkg) {
			init = sxZero(g.Type().(*types.Pointer).Elem())
		} else {
			init = sxT("global:" + g.String())
		}
		o = &sxObj{id: r.env.newID(), epoch: r.env.epoch, val: init}
		r.env.globals[g] = o
	}
	return o
}

// ownPkg: the package has bodies the executor may follow (its initialiser is the one sxInit ran).
func (r *sxRun) ownPkg(p *ssa.Package) bool {
	init := p.Func("init")
	return init != nil && len(init.Blocks) > 0 && r.env.follow != nil && r.env.follow(init)
}

// ---------------------------------------------------------------------------
// comparisons

// sxEq decides x == y where it can.
func (r *sxRun) sxEq(x, y sxVal) (eq, known bool) {
	if cx, ok := x.(sxConst); ok {
		if cy, ok := y.(sxConst); ok {
			if cx.v == nil || cy.v == nil {
				return cx.v == nil && cy.v == nil, true
			}
			if cx.v.Kind() == cy.v.Kind() || (cx.v.Kind() != constant.String && cx.v.Kind() != constant.Bool && cy.v.Kind() != constant.String && cy.v.Kind() != constant.Bool) {
				return constant.Compare(cx.v, token.EQL, cy.v), true
			}
			return false, true
		}
		if cx.v == nil {
			return r.eqNil(y)
		}
	}
	if cy, ok := y.(sxConst); ok && cy.v == nil {
		return r.eqNil(x)
	}
	switch a := x.(type) {
	case sxGlob:
		switch b := y.(type) {
		case sxGlob:
			return a.g == b.g, true
		case sxConst:
			return false, true
		}
	case sxPtr:
		if b, ok := y.(sxPtr); ok {
			return a.key() == b.key(), true
		}
	case sxAggr:
		if b, ok := y.(sxAggr); ok && len(a.elems) == len(b.elems) {
			all := true
			for i := range a.elems {
				e, k := r.sxEq(a.elems[i], b.elems[i])
				if !k {
					return false, false
				}
				all = all && e
			}
			return all, true
		}
	case *sxTerm:
		if b, ok := y.(*sxTerm); ok && a.k == b.k {
			return true, true
		}
	}
	if _, ok := y.(sxGlob); ok {
		if _, ok := x.(sxConst); ok {
			return false, true
		}
	}
	return false, false
}

func (r *sxRun) eqNil(v sxVal) (eq, known bool) {
	switch x := v.(type) {
	case sxConst:
		return x.v == nil, true
	case sxGlob, sxPtr, sxFunc:
		return false, true
	case sxSlice:
		return x.arr == nil, true
	case sxMap:
		return x.m == nil, true
	case *sxTerm:
		if r.env.nonNil != nil && r.env.nonNil(v) {
			return false, true
		}
	}
	return false, false
}

// sxNot negates a boolean value.
func sxNot(v sxVal) sxVal {
	if b, ok := sxAsBool(v); ok {
		return sxBool(!b)
	}
	if t := sxIsTerm(v, "!"); t != nil {
		return t.args[0]
	}
	return sxT("!", v)
}

// cmp builds x op y in a canonical form: atoms are "==" (operands ordered by key) and "<"; the other comparisons are
// negations / swaps of them.
func (r *sxRun) cmp(op token.Token, x, y sxVal) sxVal {
	switch op {
	case token.NEQ:
		return sxNot(r.cmp(token.EQL, x, y))
	case token.GTR:
		return r.cmp(token.LSS, y, x)
	case token.GEQ:
		return sxNot(r.cmp(token.LSS, x, y))
	case token.LEQ:
		return sxNot(r.cmp(token.LSS, y, x))
	case token.EQL:
		if eq, known := r.sxEq(x, y); known {
			return sxBool(eq)
		}
		if x.key() > y.key() {
			x, y = y, x
		}
		return sxT("==", x, y)
	case token.LSS:
		cx, okx := x.(sxConst)
		cy, oky := y.(sxConst)
		if okx && oky && cx.v != nil && cy.v != nil {
			return sxBool(constant.Compare(cx.v, token.LSS, cy.v))
		}
		return sxT("<", x, y)
	}
	r.fail("comparison %s", op)
	return nil
}

func (r *sxRun) binop(op token.Token, x, y sxVal, t types.Type) sxVal {
	switch op {
	case token.EQL, token.NEQ, token.LSS, token.LEQ, token.GTR, token.GEQ:
		return r.cmp(op, x, y)
	}
	cx, okx := x.(sxConst)
	cy, oky := y.(sxConst)
	if okx && oky && cx.v != nil && cy.v != nil {
		switch op {
		case token.ADD, token.SUB, token.MUL, token.AND, token.OR, token.XOR, token.AND_NOT:
			return sxConst{constant.BinaryOp(cx.v, op, cy.v)}
		case token.QUO, token.REM:
			if constant.Sign(cy.v) != 0 && cx.v.Kind() == constant.Int {
				o := op
				if op == token.QUO {
					o = token.QUO_ASSIGN
				}
				return sxConst{constant.BinaryOp(cx.v, o, cy.v)}
			}
		case token.SHL, token.SHR:
			if s, ok := constant.Uint64Val(cy.v); ok && s < 64 {
				return sxConst{constant.Shift(cx.v, op, uint(s))}
			}
		}
	}
	return sxT(op.String(), x, y)
}

// branch decides a condition: constants directly, terms by a (recorded, consistent) choice.
func (r *sxRun) branch(c sxVal) bool {
	if b, ok := sxAsBool(c); ok {
		return b
	}
	neg := false
	for {
		t := sxIsTerm(c, "!")
		if t == nil {
			break
		}
		c, neg = t.args[0], !neg
	}
	if b, ok := sxAsBool(c); ok {
		return b != neg
	}
	k := c.key()
	d, ok := r.decided[k]
	if !ok {
		d = r.choose()
		r.decided[k] = d
		r.path.conds = append(r.path.conds, sxCond{c, d, len(r.path.calls)})
	}
	return d != neg
}

// ---------------------------------------------------------------------------
// execution

func (r *sxRun) call(fn *ssa.Function, args []sxVal, depth int) (ret []sxVal, panicked bool) {
	if depth > 16 {
		r.fail("call depth exceeded in %s", fn.Name())
	}
	if len(fn.Blocks) == 0 {
		r.fail("%s has no body", fn.Name())
	}
	if len(fn.FreeVars) > 0 {
		r.fail("closure %s", fn.Name())
	}
	if r.env.entered != nil {
		r.env.entered[fn] = true
	}
	max := r.env.maxSteps
	if max == 0 {
		max = 200000
	}
	vals := map[ssa.Value]sxVal{}
	for i, p := range fn.Params {
		if i < len(args) {
			vals[p] = args[i]
		} else {
			vals[p] = sxParam(p.Name())
		}
	}
	get := func(v ssa.Value) sxVal {
		switch x := v.(type) {
		case *ssa.Const:
			if x.Value == nil {
				return sxZero(x.Type())
			}
			return sxConst{x.Value}
		case *ssa.Global:
			return sxPtr{obj: r.globalObj(x)}
		case *ssa.Function:
			return sxFunc{x}
		case *ssa.Builtin:
			return sxT("builtin:" + x.Name())
		}
		a, ok := vals[v]
		if !ok {
			r.fail("use of undefined value %s in %s", v.Name(), fn.Name())
		}
		return a
	}
	b := fn.Blocks[0]
	var prev *ssa.BasicBlock
	for {
		// phis read the values of the predecessor simultaneously
		phiVals := map[*ssa.Phi]sxVal{}
		for _, in := range b.Instrs {
			phi, ok := in.(*ssa.Phi)
			if !ok {
				break
			}
			for i, p := range b.Preds {
				if p == prev {
					phiVals[phi] = get(phi.Edges[i])
				}
			}
		}
		for phi, v := range phiVals {
			vals[phi] = v
		}
		for _, in := range b.Instrs {
			r.steps++
			if r.steps > max {
				r.fail("step bound exceeded in %s", fn.Name())
			}
			switch x := in.(type) {
			case *ssa.DebugRef, *ssa.Phi, *ssa.Jump, *ssa.If, *ssa.RunDefers:
			case *ssa.Alloc:
				vals[x] = sxPtr{obj: r.newObj(sxZero(x.Type().(*types.Pointer).Elem()))}
			case *ssa.FieldAddr:
				switch p := get(x.X).(type) {
				case sxPtr:
					vals[x] = sxPtr{obj: p.obj, path: append(append([]int{}, p.path...), x.Field)}
				default:
					vals[x] = sxT(fmt.Sprintf("fieldaddr#%d", x.Field), p)
				}
			case *ssa.Field:
				switch a := get(x.X).(type) {
				case sxAggr:
					vals[x] = r.loadAt(a, []int{x.Field})
				default:
					vals[x] = sxT(fmt.Sprintf("field#%d", x.Field), a)
				}
			case *ssa.IndexAddr:
				base, idx := get(x.X), get(x.Index)
				i, isC := sxAsInt(idx)
				switch p := base.(type) {
				case sxPtr: // pointer to array
					if !isC {
						r.fail("symbolic index into an array in %s", fn.Name())
					}
					vals[x] = sxPtr{obj: p.obj, path: append(append([]int{}, p.path...), int(i))}
				case sxSlice:
					if !isC {
						r.fail("symbolic index into a slice in %s", fn.Name())
					}
					if p.arr == nil || int(i) < 0 || p.lo+int(i) >= p.hi {
						return nil, true // index out of range
					}
					vals[x] = sxPtr{obj: p.arr, path: []int{p.lo + int(i)}}
				default:
					vals[x] = sxT("idx", base, idx)
				}
			case *ssa.Index:
				base, idx := get(x.X), get(x.Index)
				if a, ok := base.(sxAggr); ok {
					if i, isC := sxAsInt(idx); isC && int(i) < len(a.elems) && i >= 0 {
						vals[x] = a.elems[i]
						break
					}
				}
				vals[x] = sxT("index", base, idx)
			case *ssa.UnOp:
				vals[x] = r.unop(x, get(x.X), fn)
			case *ssa.BinOp:
				vals[x] = r.binop(x.Op, get(x.X), get(x.Y), x.Type())
			case *ssa.Store:
				switch p := get(x.Addr).(type) {
				case sxPtr:
					if p.obj.epoch != r.env.epoch {
						r.fail("%s writes to state that outlives the call", fn.Name())
					}
					p.obj.val = r.storeAt(p.obj.val, p.path, get(x.Val))
				default:
					r.fail("store through the unknown address %s in %s", p.key(), fn.Name())
				}
			case *ssa.ChangeType:
				vals[x] = get(x.X)
			case *ssa.ChangeInterface:
				vals[x] = get(x.X)
			case *ssa.MakeInterface:
				vals[x] = get(x.X)
			case *ssa.Convert:
				vals[x] = r.convert(get(x.X), x.X.Type(), x.Type())
			case *ssa.Extract:
				switch t := get(x.Tuple).(type) {
				case sxTuple:
					vals[x] = t.elems[x.Index]
				default:
					vals[x] = sxT(fmt.Sprintf("extract#%d", x.Index), t)
				}
			case *ssa.TypeAssert:
				a := get(x.X)
				ts := types.TypeString(x.AssertedType, nil)
				if x.CommaOk {
					vals[x] = sxTuple{[]sxVal{sxT("assert:"+ts, a), sxT("assertok:"+ts, a)}}
				} else {
					vals[x] = sxT("assert:"+ts, a)
				}
			case *ssa.MakeMap:
				vals[x] = sxMap{&sxMapObj{id: r.env.newID(), epoch: r.env.epoch}}
			case *ssa.MakeSlice:
				n, ok := sxAsInt(get(x.Len))
				if !ok || n > 1<<12 {
					r.fail("make of a slice of unknown length in %s", fn.Name())
				}
				et := x.Type().Underlying().(*types.Slice).Elem()
				a := sxAggr{}
				for i := int64(0); i < n; i++ {
					a.elems = append(a.elems, sxZero(et))
				}
				vals[x] = sxSlice{arr: r.newObj(a), lo: 0, hi: int(n)}
			case *ssa.MapUpdate:
				m, ok := get(x.Map).(sxMap)
				if !ok || m.m == nil {
					r.fail("update of an unknown or nil map in %s", fn.Name())
				}
				k := get(x.Key)
				if r.env.onMapKey != nil {
					r.env.onMapKey(fn, x, k)
				}
				if !sxHashable(k) {
					r.fail("map update with the symbolic key %s in %s", k.key(), fn.Name())
				}
				if m.m.epoch != r.env.epoch {
					r.fail("%s writes to a map that outlives the call", fn.Name())
				}
				done := false
				for i := range m.m.entries {
					if m.m.entries[i].k.key() == k.key() {
						m.m.entries[i].v = get(x.Value)
						done = true
					}
				}
				if !done {
					m.m.entries = append(m.m.entries, sxMapEntry{k, get(x.Value)})
				}
			case *ssa.Lookup:
				vals[x] = r.lookup(x, get(x.X), get(x.Index), fn)
			case *ssa.Range:
				switch m := get(x.X).(type) {
				case sxMap:
					it := sxIter{pos: new(int)}
					if m.m != nil {
						it.entries = append(it.entries, m.m.entries...)
					}
					vals[x] = it
				default:
					r.fail("range over %s in %s", m.key(), fn.Name())
				}
			case *ssa.Next:
				it, ok := get(x.Iter).(sxIter)
				if !ok {
					r.fail("next of an unknown iterator in %s", fn.Name())
				}
				if *it.pos < len(it.entries) {
					e := it.entries[*it.pos]
					*it.pos++
					vals[x] = sxTuple{[]sxVal{sxBool(true), e.k, e.v}}
				} else {
					vals[x] = sxTuple{[]sxVal{sxBool(false), sxNil(), sxNil()}}
				}
			case *ssa.Slice:
				vals[x] = r.slice(x, get, fn)
			case *ssa.Call:
				res, p := r.doCall(x, get, fn, depth)
				if p {
					return nil, true
				}
				vals[x] = res
			case *ssa.Return:
				var rs []sxVal
				for _, v := range x.Results {
					rs = append(rs, get(v))
				}
				return rs, false
			case *ssa.Panic:
				return nil, true
			default:
				r.fail("unsupported instruction %T in %s", in, fn.Name())
			}
		}
		switch t := b.Instrs[len(b.Instrs)-1].(type) {
		case *ssa.Jump:
			prev, b = b, b.Succs[0]
		case *ssa.If:
			prev = b
			if r.branch(get(t.Cond)) {
				b = b.Succs[0]
			} else {
				b = b.Succs[1]
			}
		default:
			r.fail("block without a terminator in %s", fn.Name())
		}
	}
}

func sxHashable(k sxVal) bool {
	switch x := k.(type) {
	case sxConst, sxGlob, sxPtr:
		return true
	case sxAggr:
		for _, e := range x.elems {
			if !sxHashable(e) {
				return false
			}
		}
		return true
	}
	return false
}

func (r *sxRun) unop(x *ssa.UnOp, a sxVal, fn *ssa.Function) sxVal {
	switch x.Op {
	case token.MUL:
		if g, ok := x.X.(*ssa.Global); ok && r.env.token != nil && r.env.token(g) {
			return sxGlob{g}
		}
		switch p := a.(type) {
		case sxPtr:
			return r.loadAt(p.obj.val, p.path)
		default:
			return sxT("load", a)
		}
	case token.NOT:
		return sxNot(a)
	case token.SUB:
		if c, ok := a.(sxConst); ok && c.v != nil {
			return sxConst{constant.UnaryOp(token.SUB, c.v, 0)}
		}
		return sxT("neg", a)
	case token.XOR:
		return sxT("compl", a)
	}
	r.fail("unsupported unary operator %s in %s", x.Op, fn.Name())
	return nil
}

func (r *sxRun) convert(v sxVal, from, to types.Type) sxVal {
	fb, _ := from.Underlying().(*types.Basic)
	tb, _ := to.Underlying().(*types.Basic)
	if c, ok := v.(sxConst); ok && c.v != nil && fb != nil && tb != nil {
		fi, ti := fb.Info(), tb.Info()
		switch {
		case fi&types.IsInteger != 0 && ti&types.IsInteger != 0:
			return v // no overflow modelling: the tables hold small codes
		case fi&types.IsString != 0 && ti&types.IsString != 0:
			return v
		case fi&types.IsBoolean != 0 && ti&types.IsBoolean != 0:
			return v
		}
	}
	if types.Identical(from.Underlying(), to.Underlying()) {
		return v
	}
	return sxT("conv:"+types.TypeString(to, nil), v)
}

func (r *sxRun) lookup(x *ssa.Lookup, m, k sxVal, fn *ssa.Function) sxVal {
	if mv, ok := m.(sxMap); ok {
		if r.env.onMapKey != nil {
			r.env.onMapKey(fn, x, k)
		}
		if sxHashable(k) {
			var val sxVal
			found := false
			if mv.m != nil {
				for _, e := range mv.m.entries {
					if e.k.key() == k.key() {
						val, found = e.v, true
					}
				}
			}
			if !found {
				val = sxZero(x.X.Type().Underlying().(*types.Map).Elem())
			}
			if x.CommaOk {
				return sxTuple{[]sxVal{val, sxBool(found)}}
			}
			return val
		}
	}
	if x.CommaOk {
		return sxTuple{[]sxVal{sxT("lookup", m, k), sxT("lookupok", m, k)}}
	}
	return sxT("lookup", m, k)
}

func (r *sxRun) slice(x *ssa.Slice, get func(ssa.Value) sxVal, fn *ssa.Function) sxVal {
	base := get(x.X)
	bound := func(v ssa.Value) (int, bool, sxVal) {
		if v == nil {
			return 0, false, sxNil()
		}
		s := get(v)
		n, ok := sxAsInt(s)
		if !ok {
			return 0, false, s
		}
		return int(n), true, s
	}
	lo, hasLo, loV := bound(x.Low)
	hi, hasHi, hiV := bound(x.High)
	concrete := (x.Low == nil || hasLo) && (x.High == nil || hasHi) && x.Max == nil
	switch b := base.(type) {
	case sxPtr: // pointer to array
		if a, ok := r.loadAt(b.obj.val, b.path).(sxAggr); ok && concrete && len(b.path) == 0 {
			if x.High == nil {
				hi = len(a.elems)
			}
			if lo < 0 || hi > len(a.elems) || lo > hi {
				r.fail("slice bounds in %s", fn.Name())
			}
			return sxSlice{arr: b.obj, lo: lo, hi: hi}
		}
	case sxSlice:
		if concrete {
			if x.High == nil {
				hi = b.hi - b.lo
			}
			if b.arr == nil {
				if lo == 0 && hi == 0 {
					return b
				}
				r.fail("slice of the nil slice in %s", fn.Name())
			}
			if lo < 0 || b.lo+hi > len(r.backing(b.arr)) || lo > hi {
				r.fail("slice bounds in %s", fn.Name())
			}
			return sxSlice{arr: b.arr, lo: b.lo + lo, hi: b.lo + hi}
		}
	case sxConst:
		if s, ok := sxAsString(b); ok && concrete {
			if x.High == nil {
				hi = len(s)
			}
			if lo >= 0 && lo <= hi && hi <= len(s) {
				return sxStr(s[lo:hi])
			}
		}
	}
	return sxT("slice", base, loV, hiV)
}

func (r *sxRun) elemsOf(s sxSlice) []sxVal {
	if s.arr == nil {
		return nil
	}
	return r.backing(s.arr)[s.lo:s.hi]
}

// backing returns the elements of the array a slice points into.
func (r *sxRun) backing(o *sxObj) []sxVal {
	a, ok := o.val.(sxAggr)
	if !ok {
		r.fail("slice of an array that is not modelled")
	}
	return a.elems
}

func (r *sxRun) doCall(x *ssa.Call, get func(ssa.Value) sxVal, fn *ssa.Function, depth int) (sxVal, bool) {
	cc := x.Common()
	var args []sxVal
	for _, a := range cc.Args {
		args = append(args, get(a))
	}
	external := func(name string, args []sxVal) sxVal {
		var res sxVal
		if r.env.call != nil {
			res = r.env.call(name, args)
		}
		if res == nil {
			op := "call:" + name
			if strings.HasPrefix(name, "invoke:") {
				op = name
			}
			// a variadic argument list is part of the identity of the call by its elements
			targs := make([]sxVal, len(args))
			for i, a := range args {
				if s, ok := a.(sxSlice); ok {
					targs[i] = sxAggr{elems: append([]sxVal{}, r.elemsOf(s)...)}
				} else {
					targs[i] = a
				}
			}
			res = sxT(op, targs...)
		}
		r.path.calls = append(r.path.calls, sxCall{name: name, args: args, res: res})
		return res
	}
	if cc.IsInvoke() {
		return external("invoke:"+cc.Method.Name(), append([]sxVal{get(cc.Value)}, args...)), false
	}
	if bi, ok := cc.Value.(*ssa.Builtin); ok {
		return r.builtin(bi.Name(), args, x, fn), false
	}
	callee := cc.StaticCallee()
	if callee == nil {
		if f, ok := get(cc.Value).(sxFunc); ok {
			callee = f.fn
		}
	}
	if callee == nil {
		r.fail("call of a function value in %s", fn.Name())
	}
	if o := callee.Origin(); o != nil {
		callee = o
	}
	if len(callee.Blocks) > 0 && r.env.follow != nil && r.env.follow(callee) {
		rs, p := r.call(callee, args, depth+1)
		if p {
			return nil, true
		}
		switch len(rs) {
		case 0:
			return sxTuple{}, false
		case 1:
			return rs[0], false
		}
		return sxTuple{rs}, false
	}
	name := callee.String()
	if callee.Signature.Recv() == nil && callee.Pkg != nil {
		name = callee.Pkg.Pkg.Path() + "." + callee.Name()
	}
	return external(name, args), false
}

func (r *sxRun) builtin(name string, args []sxVal, x *ssa.Call, fn *ssa.Function) sxVal {
	switch name {
	case "len", "cap":
		if len(args) == 1 {
			switch a := args[0].(type) {
			case sxSlice:
				if name == "len" || a.arr == nil {
					return sxInt(int64(a.hi - a.lo))
				}
				return sxInt(int64(len(r.backing(a.arr)) - a.lo))
			case sxMap:
				if a.m == nil {
					return sxInt(0)
				}
				return sxInt(int64(len(a.m.entries)))
			case sxConst:
				if s, ok := sxAsString(a); ok {
					return sxInt(int64(len(s)))
				}
			}
			return sxT(name, args[0])
		}
	case "append":
		if len(args) == 2 {
			a, oka := args[0].(sxSlice)
			b, okb := args[1].(sxSlice)
			if oka && okb {
				elems := append(append([]sxVal{}, r.elemsOf(a)...), r.elemsOf(b)...)
				return sxSlice{arr: r.newObj(sxAggr{elems: elems}), lo: 0, hi: len(elems)}
			}
			return sxT("append", args...)
		}
	}
	r.fail("unsupported builtin %s in %s", name, fn.Name())
	return nil
}

// ---------------------------------------------------------------------------
// helpers for rules

// sxGlobalValue returns the content of a package-level variable after sxInit.
func sxGlobalValue(env *sxEnv, g *ssa.Global) sxVal {
	if o, ok := env.globals[g]; ok {
		return o.val
	}
	return nil
}

// sxMapEntries returns the entries of a concrete map value in insertion order.
func sxMapEntries(v sxVal) ([]sxMapEntry, bool) {
	m, ok := v.(sxMap)
	if !ok {
		return nil, false
	}
	if m.m == nil {
		return nil, true
	}
	return m.m.entries, true
}

// sxSliceElems returns the elements of a concrete slice value (e.g. a variadic argument list).
func sxSliceElems(v sxVal) ([]sxVal, bool) {
	switch s := v.(type) {
	case sxSlice:
		if s.arr == nil {
			return nil, true
		}
		if a, ok := s.arr.val.(sxAggr); ok && s.hi <= len(a.elems) {
			return a.elems[s.lo:s.hi], true
		}
		return nil, false
	case sxAggr:
		return s.elems, true
	}
	return nil, false
}

// sxDump renders paths for diagnostics.
func sxDump(paths []*sxPath) string {
	var s []string
	for _, p := range paths {
		s = append(s, p.String())
	}
	sort.Strings(s)
	return strings.Join(s, "\n")
}
