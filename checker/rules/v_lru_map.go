package rules

import (
	"go/token"
	"go/types"

	"golang.org/x/tools/go/ssa"

	"verif/checker/ir"
)

// Rules of the ordered map added after seeded round "f" (run by mapRules under every prefix: C10.R13/R14, C08.M13/M14,
// C09.M13/M14, C11.M13/M14). Both are about the two ends of the list:
//
//   R13 (appendIntoTailV): a new entry is stored only into the node the map's tail field designates (the end sentinel)
//   R14 (headCensusV):     the head field is assigned only nodes that are known to have no predecessor

// mapFnsV: the functions of the map package (declared functions and literals).
func (c *Ctx) mapFnsV() []*ssa.Function { return c.P.FuncsOf("container/iterable") }

// paramIdxV returns the index of p among the parameters of its function, -1 when it is none.
func paramIdxV(p *ssa.Parameter) int {
	if p == nil || p.Parent() == nil {
		return -1
	}
	for i, q := range p.Parent().Params {
		if q == p {
			return i
		}
	}
	return -1
}

// privateSitesV lists the static calls of fn in the map package when fn is a private declared function that is never
// used as a value, started with go or deferred (then these calls are all its runs); ok = false otherwise.
func (c *Ctx) privateSitesV(fn *ssa.Function) (sites []*ssa.Call, ok bool) {
	if fn == nil || fn.Parent() != nil || fn.Object() == nil || fn.Object().Exported() {
		return nil, false
	}
	ok = true
	for _, caller := range c.mapFnsV() {
		ir.Instrs(caller, func(in ssa.Instruction) {
			ci, isCI := in.(ssa.CallInstruction)
			if isCI && !ci.Common().IsInvoke() && ir.StaticCallee(ci) == fn {
				if call, isCall := in.(*ssa.Call); isCall {
					sites = append(sites, call)
				} else {
					ok = false // go / defer: runs at another time
				}
				return
			}
			for _, op := range in.Operands(nil) {
				if op == nil || *op == nil {
					continue
				}
				if f, isF := (*op).(*ssa.Function); isF && (f == fn || f.Origin() == fn) {
					if isCI && ci.Common().Value == *op {
						continue
					}
					ok = false // used as a value
				}
			}
		})
	}
	return sites, ok && len(sites) > 0
}

// listOwnerV: the named struct that declares the head field - the map itself, or a list type the map holds.
func (c *Ctx) listOwnerV(r *mapRoles) *types.Named {
	for _, t := range c.P.NamedTypes("container/iterable") {
		if len(fieldsWhere(t, func(f *types.Var) bool { return f.Origin() == r.head })) == 1 {
			return t.Origin()
		}
	}
	return r.Map
}

// partOfListV: x is (an address inside) the map, or a value of the list type that declares the head (inside the methods
// of an extracted list type the list is the receiver, not a part of a map value).
func (r *mapRoles) partOfListV(x ssa.Value, owner *types.Named) bool {
	if r.partOfMap(x) {
		return true
	}
	return owner != nil && x != nil && (namedOf(x.Type()) == owner || namedOf(ir.Resolve(x).Type()) == owner)
}

// addScopeV: the code that runs on behalf of Add - Add itself, the append routine, and the routines of the package Add
// runs (static calls, bounded depth).
func (c *Ctx) addScopeV(r *mapRoles) []*ssa.Function {
	var fns []*ssa.Function
	seen := map[*ssa.Function]bool{}
	inPkg := map[*ssa.Function]bool{}
	for _, f := range c.mapFnsV() {
		inPkg[f] = true
	}
	var reach func(fn *ssa.Function, depth int)
	reach = func(fn *ssa.Function, depth int) {
		if fn == nil || seen[fn] || depth > 3 || len(fn.Blocks) == 0 {
			return
		}
		seen[fn] = true
		fns = append(fns, fn)
		for _, ci := range ir.Calls(fn) {
			if cal := ir.StaticCallee(ci); cal != nil && !ci.Common().IsInvoke() && inPkg[cal] {
				reach(cal, depth+1)
			}
		}
		ir.Instrs(fn, func(in ssa.Instruction) {
			if mc, ok := in.(*ssa.MakeClosure); ok {
				if f, isF := mc.Fn.(*ssa.Function); isF {
					reach(f, depth+1)
				}
			}
		})
	}
	reach(r.addFn, 0)
	reach(r.putVal, 0)
	return fns
}

// tailFieldV resolves the role "tail": the node-pointer field of the map (or of a list struct the map holds by value),
// other than the head, that Add - or the append routine it runs - re-targets. It is the field that designates the end
// sentinel.
func (c *Ctx) tailFieldV(r *mapRoles, owner *types.Named) *types.Var {
	var cands []*types.Var
	fns := c.addScopeV(r)
	for _, fn := range fns {
		if fn == nil {
			continue
		}
		ir.Instrs(fn, func(in ssa.Instruction) {
			st, ok := in.(*ssa.Store)
			if !ok {
				return
			}
			fa, ok := st.Addr.(*ssa.FieldAddr)
			if !ok {
				return
			}
			f := ir.FieldOf(fa)
			if f == nil || f == r.head || !r.isNodePtr(f.Type()) || !r.partOfListV(fa.X, owner) {
				return
			}
			cands = appendUniq(cands, f)
		})
	}
	if len(cands) != 1 {
		return nil
	}
	return cands[0]
}

// appendIntoTailV (R13). The list ends in a sentinel node; an iterator that has run to the end is parked on the
// sentinel, and "entries added during iteration are seen" holds because Add turns that very node into the new entry and
// hangs a fresh sentinel behind it. So the node that receives the key and the value of an Add is the node the map's
// tail field designates at that moment - read from the tail field before the field is re-targeted, possibly handed
// to the append routine as an argument - and never a node reached any other way (through a link of the sentinel, from
// the pool, ...): an entry written into another node lies before the sentinel, every iterator that is parked on the
// sentinel has passed it and never returns it.
//
// Decided for every store of a parameter into a payload field of a node (the "fill" events the append role is
// resolved by) in the code that runs on behalf of Add: each value the filled node can be (phi alternatives) is
//   - a load of the tail field of the map with no store to the tail field on any path before it, or
//   - a parameter of a private routine, and at every call of that routine the argument is such a value.
func (c *Ctx) appendIntoTailV(r *mapRoles, rule string) {
	const what = "new entry stored into the node the tail field designates"
	owner := c.listOwnerV(r)
	tail := c.tailFieldV(r, owner)
	if tail == nil {
		c.Undecided(rule, r.addFn, what, nil, "cannot identify the field that designates the end of the list (the node-pointer field of the map, besides the head, that Add re-targets)")
		return
	}
	c.Role("map.tail", tail.Name(), tail.Pos())
	isTailStore := func(x ssa.Instruction) bool {
		b, _, ok := storeToField(x, tail)
		return ok && r.partOfListV(b, owner)
	}
	var designated func(fn *ssa.Function, v ssa.Value, depth int) (bool, string)
	designated = func(fn *ssa.Function, v ssa.Value, depth int) (bool, string) {
		if depth > 3 {
			return false, "the origin of the filled node is too deep to follow"
		}
		alts := phiClosure(ir.Resolve(v))
		if len(alts) == 0 {
			return false, "the filled node has no origin"
		}
		for _, a := range alts {
			a = ir.Resolve(a)
			if b, isTail := loadOfField(a, tail); isTail && r.partOfListV(b, owner) {
				ld, _ := a.(ssa.Instruction)
				if ld == nil {
					return false, "the tail field is not read by an instruction"
				}
				// a store to the tail field that can run before the load: the load sees the fresh sentinel
				stale := false
				ir.Instrs(ld.Parent(), func(x ssa.Instruction) {
					if stale || !isTailStore(x) {
						return
					}
					w2, e2 := (ir.Query{Fn: ld.Parent(), From: x, Target: func(y ssa.Instruction) bool { return y == ld }}).Find()
					if w2 != nil || e2 != nil {
						stale = true
					}
				})
				if stale {
					return false, "the node is read from the tail field after the field was re-targeted: it is the fresh sentinel, not the one the iterators are parked on"
				}
				continue
			}
			if prm, isP := a.(*ssa.Parameter); isP && prm.Parent() == fn {
				idx := paramIdxV(prm)
				sites, ok := c.privateSitesV(fn)
				if !ok || idx < 0 {
					return false, "the filled node is a parameter of a routine whose callers are not all known"
				}
				for _, s := range sites {
					if idx >= len(s.Call.Args) {
						return false, "call with too few arguments"
					}
					if ok2, why := designated(s.Parent(), s.Call.Args[idx], depth+1); !ok2 {
						return false, why
					}
				}
				continue
			}
			if u, isLoad := a.(*ssa.UnOp); isLoad && u.Op == token.MUL {
				if fa, isFA := u.X.(*ssa.FieldAddr); isFA && r.isLink(ir.FieldOf(fa)) {
					return false, "the entry is written into a node reached through the link '" + ir.FieldOf(fa).Name() + "' of another node, not into the end sentinel"
				}
			}
			return false, "the entry is written into a node that is not read from the tail field of the map"
		}
		return true, ""
	}
	n := 0
	for _, fn := range c.addScopeV(r) {
		fn := fn
		ir.Instrs(fn, func(in ssa.Instruction) {
			if !r.isFill(fn, in) {
				return
			}
			base, _, ok := r.nodeFieldPathD(in.(*ssa.Store).Addr)
			if !ok {
				return
			}
			n++
			good, why := designated(fn, base, 0)
			c.Decide(rule, fn, what, in, good, why+": the new entry lies before the end sentinel, an iterator that has reached the end of the list (it is parked on the sentinel) never returns it although it was added after the iterator's position")
		})
	}
	if n == 0 {
		c.Decide(rule, r.addFn, what, nil, false, "no store of Add's key/value into a node found")
	}
}

// unlinkLinksV resolves, from the unlink routine, the successor link (the link of the unlinked node whose value the
// routine reports - or installs - as the new head) and the back link (the other link), and whether the routine decides
// "the node is the head" by the back link being nil: every place that reports/installs a successor is only reached
// with "node.back == nil" known. ok = false when the node has not exactly two links or no successor is reported.
func (r *mapRoles) unlinkLinksV() (succ, back *types.Var, byBackLink, ok bool) {
	links := fieldsWhere(r.node, func(f *types.Var) bool { return r.isNodePtr(f.Type()) })
	if len(links) != 2 || r.unlink == nil || r.unlinkSubj >= len(r.unlink.Params) {
		return nil, nil, false, false
	}
	subj := ssa.Value(r.unlink.Params[r.unlinkSubj])
	succOf := func(v ssa.Value) *types.Var {
		if l, isLink := r.linkLoadOf(v, subj); isLink {
			return l
		}
		return nil
	}
	type site struct {
		blk *ssa.BasicBlock
		l   *types.Var
	}
	var sites []site
	if !r.unlinkOwnsHead {
		hi, _ := r.unlinkResultIdxD()
		for _, ret := range ir.Returns(r.unlink) {
			if hi < 0 || hi >= len(ret.Results) {
				continue
			}
			res := ir.Resolve(ret.Results[hi])
			if p, isPhi := res.(*ssa.Phi); isPhi {
				for i, e := range p.Edges {
					if l := succOf(e); l != nil && i < len(p.Block().Preds) {
						sites = append(sites, site{p.Block().Preds[i], l})
					}
				}
				continue
			}
			if l := succOf(res); l != nil {
				sites = append(sites, site{ret.Block(), l})
			}
		}
	} else {
		ir.Instrs(r.unlink, func(in ssa.Instruction) {
			if _, val, isSt := storeToField(in, r.head); isSt {
				for _, o := range phiClosure(ir.Resolve(val)) {
					if l := succOf(o); l != nil {
						sites = append(sites, site{in.Block(), l})
					}
				}
			}
		})
	}
	if len(sites) == 0 {
		return nil, nil, false, false
	}
	succ = sites[0].l
	for _, s := range sites {
		if s.l != succ {
			return nil, nil, false, false
		}
	}
	for _, l := range links {
		if l != succ {
			back = l
		}
	}
	byBackLink = true
	for _, s := range sites {
		known := hasFactCmp(s.blk, func(cm ir.Cmp) bool {
			if cm.Op != token.EQL {
				return false
			}
			for _, xy := range [][2]ssa.Value{{cm.X, cm.Y}, {cm.Y, cm.X}} {
				if l, isLink := r.linkLoadOf(xy[0], subj); isLink && l == back && ir.IsNilConst(xy[1]) {
					return true
				}
			}
			return false
		})
		if !known {
			byBackLink = false
		}
	}
	return succ, back, byBackLink, true
}

// headCensusV (R14). The unlink routine tells "the node I take out is the head" by the node having no predecessor
// (its back link is nil), and only then reports its successor as the new head (R9) after cutting the successor's back
// link (R12). That is right only while the invariant "the head field designates the one node whose back link is nil"
// holds, so every assignment to the head field has to preserve it. The head is assigned only
//   - what the unlink routine reported as the new head, directly or handed on as the result of a wrapper routine (R1
//     decides the nil test around it), or
//   - a node allocated in place whose back link is never set, or
//   - a node whose back link is set to nil in the same step (on every path through the assignment), or
//   - a parameter of a private routine that receives such a node at every call;
//
// the assignments inside the unlink routine itself are R9's. A head re-targeted to a node that still has a predecessor
// (say, to the end sentinel "because the map is empty", while a removed entry pinned by an iterator is still linked in
// front of it) makes the next entry a head with a predecessor: when it is removed the unlink routine takes the
// middle-of-the-list arm and reports no new head, the head field keeps pointing at the detached (recycled) node, and
// First()/Iterator() walk into it - a panic or entries that are skipped.
func (c *Ctx) headCensusV(r *mapRoles, rule string) {
	const what = "head assigned a node without predecessor"
	_, back, byBackLink, ok := r.unlinkLinksV()
	if !ok || !byBackLink {
		// the unlink routine recognises the head some other way (compared with the head field): the invariant this rule
		// protects is not the one the list relies on
		c.Decide(rule, r.unlink, "head census not applicable: the unlink routine does not recognise the head by a nil back link", nil, true, "")
		return
	}
	owner := c.listOwnerV(r)
	hi, _ := r.unlinkResultIdxD()
	var fine func(fn *ssa.Function, st ssa.Instruction, v ssa.Value, depth int) (bool, string)
	inPkg := map[*ssa.Function]bool{}
	for _, f := range c.mapFnsV() {
		inPkg[f] = true
	}
	// resultFine: the call runs a routine of the package (a wrapper around the unlink routine) whose result idx is, at
	// every return, nil or a node that may become the head
	resultFine := func(call *ssa.Call, idx int, depth int) bool {
		cal := ir.StaticCallee(call)
		if cal == nil || call.Call.IsInvoke() || !inPkg[cal] || cal == r.unlink || len(cal.Blocks) == 0 || depth > 2 {
			return false
		}
		rets := ir.Returns(cal)
		for _, ret := range rets {
			if idx >= len(ret.Results) {
				return false
			}
			if ok2, _ := fine(cal, ret, ret.Results[idx], depth+1); !ok2 {
				return false
			}
		}
		return len(rets) > 0
	}
	fine = func(fn *ssa.Function, st ssa.Instruction, v ssa.Value, depth int) (bool, string) {
		if depth > 3 {
			return false, "the origin of the assigned node is too deep to follow"
		}
		alts := phiClosure(ir.Resolve(v))
		if len(alts) == 0 {
			return false, "the assigned node has no origin"
		}
		for _, a := range alts {
			a = ir.Resolve(a)
			if ir.IsNilConst(a) {
				continue // "no new head": whether nil can reach the store is R1's clause (the nil test around it)
			}
			switch x := a.(type) {
			case *ssa.Call:
				if ir.StaticCallee(x) == r.unlink && !r.unlinkOwnsHead {
					continue
				}
				if resultFine(x, 0, depth) {
					continue
				}
			case *ssa.Extract:
				if call, isCall := x.Tuple.(*ssa.Call); isCall {
					if ir.StaticCallee(call) == r.unlink && x.Index == hi {
						continue
					}
					if resultFine(call, x.Index, depth) {
						continue
					}
				}
			case *ssa.Alloc:
				// allocated in place: the back link is what the code here stores into it
				setNonNil := false
				if refs := x.Referrers(); refs != nil {
					for _, ref := range *refs {
						fa, isFA := ref.(*ssa.FieldAddr)
						if !isFA || ir.FieldOf(fa) != back || fa.Referrers() == nil {
							continue
						}
						for _, rr := range *fa.Referrers() {
							if s, isSt := rr.(*ssa.Store); isSt && s.Addr == ssa.Value(fa) && !ir.IsNilConst(s.Val) {
								setNonNil = true
							}
						}
					}
				}
				if namedOf(x.Type()) == r.node && !setNonNil {
					continue
				}
			case *ssa.Parameter:
				if x.Parent() == fn {
					idx := paramIdxV(x)
					sites, known := c.privateSitesV(fn)
					if known && idx >= 0 {
						all := true
						why := ""
						for _, s := range sites {
							if idx >= len(s.Call.Args) {
								all = false
								break
							}
							if ok2, w2 := fine(s.Parent(), s, s.Call.Args[idx], depth+1); !ok2 {
								all, why = false, w2
								break
							}
						}
						if all {
							continue
						}
						if why != "" {
							return false, why
						}
					}
				}
			}
			// cut in the same step: the back link of this very node is set to nil on every path through the assignment
			isCut := func(y ssa.Instruction) bool {
				s, isSt := y.(*ssa.Store)
				if !isSt || !ir.IsNilConst(s.Val) {
					return false
				}
				fa, isFA := s.Addr.(*ssa.FieldAddr)
				return isFA && ir.FieldOf(fa) == back && (same(fa.X, a) || (samePath(fa.X, a)))
			}
			if st.Parent() == fn {
				w1, e1 := (ir.Query{Fn: fn, Block: isCut, Target: func(y ssa.Instruction) bool { return y == st }}).Find()
				w2, e2 := (ir.Query{Fn: fn, From: st, Block: isCut, Target: ir.IsExit}).Find()
				if (w1 == nil && e1 == nil) || (w2 == nil && e2 == nil) {
					continue
				}
			}
			return false, "the head field is assigned a node that is neither the new head the unlink routine reported nor a node whose '" + back.Name() + "' link is nil (allocated in place, or cut in the same step)"
		}
		return true, ""
	}
	n := 0
	for _, fn := range c.mapFnsV() {
		fn := fn
		if fn == r.unlink {
			continue
		}
		ir.Instrs(fn, func(in ssa.Instruction) {
			b, val, isSt := storeToField(in, r.head)
			if !isSt || !r.partOfListV(b, owner) {
				return
			}
			n++
			good, why := fine(fn, in, val, 0)
			c.Decide(rule, fn, what, in, good, why+": the unlink routine recognises the head by its missing predecessor; a head that has one is unlinked through the middle-of-the-list arm, no new head is reported and the head field keeps pointing at the detached node (First()/Iterator() then panic or start in the wrong place)")
		})
	}
	if n == 0 && !r.unlinkOwnsHead {
		c.Decide(rule, r.iterFn, what, nil, false, "the head field is never assigned")
	}
}

// mapRulesV runs the round-f rules of the ordered map under the prefix pfx.
func (c *Ctx) mapRulesV(r *mapRoles, pfx string) {
	c.appendIntoTailV(r, pfx+"13")
	c.headCensusV(r, pfx+"14")
}
