package rules

import (
	"golang.org/x/tools/go/ssa"

	"verif/checker/ir"
)

// ---------------------------------------------------------------------------
// Benign round u.
//   C05.L12        a deadline / cancellation context built by an exported entry point from its own arguments is the
//                  caller's context
//   C05.L2 / L3    "the lease can change at run time" = a store outside the construction of a provider; construction is
//                  any function that works on a provider that is fresh and has not escaped yet (several constructors,
//                  one delegating to the other)

// entryPointContextVU: ex is the context of `ctx, cancel := context.WithTimeout/WithDeadline/WithCancel(parent, x)` and
// stands for the caller of the acquisition as much as a context parameter does:
//   - it is made in an exported function or method (an entry point of the API: what it is given is the caller's wish),
//   - parent is itself a caller context (context.Background(), a context parameter ...),
//   - the bound x (duration or deadline) comes from the parameters of that entry point and from nothing else - not from
//     the lease, a constant or a clock the library reads: the only reason this context can end is the one the caller
//     named,
//   - the cancel function is only deferred, or called where it cannot precede any use of the context: the library does
//     not end the context on an occasion of its own.
//
// L12 is about a bound the LIBRARY invents for the storage wait (a wait bounded by the lease gives up exactly when the
// dead holder's record is about to lapse); `LockWithTimeout(d)` handing down WithTimeout(Background, d) reports the
// caller's own deadline, which is what the caller asked for.
func (r *lockRoles) entryPointContextVU(ex *ssa.Extract, depth int) bool {
	if ex.Index != 0 {
		return false
	}
	call, ok := ex.Tuple.(*ssa.Call)
	if !ok {
		return false
	}
	name := ir.CalleeFullName(call)
	switch name {
	case "context.WithTimeout", "context.WithDeadline", "context.WithCancel", "context.WithTimeoutCause", "context.WithDeadlineCause", "context.WithCancelCause":
	default:
		return false
	}
	fn := call.Parent()
	if fn == nil || fn.Parent() != nil || fn.Object() == nil || !fn.Object().Exported() {
		return false
	}
	if len(call.Call.Args) == 0 || !r.callerContextZA(call.Call.Args[0], depth+1) {
		return false
	}
	// the bound (and a cause, if given): parameters of the entry point only
	for _, a := range call.Call.Args[1:] {
		os := ir.Origins(a)
		if len(os) == 0 {
			return false
		}
		for _, o := range os {
			p, isP := o.(*ssa.Parameter)
			if !isP || p.Parent() != fn {
				return false
			}
		}
	}
	// the cancel function
	if call.Referrers() == nil {
		return false
	}
	var ctxUses []ssa.Instruction
	if ex.Referrers() != nil {
		for _, u := range *ex.Referrers() {
			if _, isDbg := u.(*ssa.DebugRef); !isDbg {
				ctxUses = append(ctxUses, u)
			}
		}
	}
	for _, ref := range *call.Referrers() {
		cx, isEx := ref.(*ssa.Extract)
		if !isEx || cx.Index != 1 || cx.Referrers() == nil {
			continue
		}
		for _, u := range *cx.Referrers() {
			switch y := u.(type) {
			case *ssa.DebugRef:
			case *ssa.Defer:
				if y.Call.Value != ssa.Value(cx) {
					return false
				}
			case *ssa.Call:
				if y.Call.Value != ssa.Value(cx) {
					return false // handed to somebody
				}
				for _, cu := range ctxUses {
					cu := cu
					if w, err := (ir.Query{Fn: fn, From: y, Target: func(x ssa.Instruction) bool { return x == cu }}).Find(); w != nil || err != nil {
						return false // cancelled before the context is used
					}
				}
			default:
				return false // stored, captured, passed on
			}
		}
	}
	return true
}

// ---------------------------------------------------------------------------

// constructorVU: every value fn returns as a provider (result 0) is a provider that is fresh in fn - allocated there, or
// returned by a constructor it calls - and is not handed to anybody inside fn.
func (r *lockRoles) constructorVU(fn *ssa.Function, visiting map[*ssa.Function]bool) bool {
	if fn == nil || len(fn.Blocks) == 0 || visiting[fn] || fn.Pkg != r.unlock.Pkg || fn.Signature.Results().Len() == 0 {
		return false
	}
	visiting[fn] = true
	defer delete(visiting, fn)
	rets := ir.Returns(fn)
	if len(rets) == 0 {
		return false
	}
	for _, ret := range rets {
		o := r.freshProviderVU(ir.ResultValue(ret, 0), visiting)
		if o == nil || len(escapesVU(o)) > 0 {
			return false
		}
	}
	return true
}

// freshProviderVU: v is a provider object that came into being in the function v belongs to: `new(provider)` / a
// composite literal, or the result of a call of a constructor of the package. Returns the value that is the object.
func (r *lockRoles) freshProviderVU(v ssa.Value, visiting map[*ssa.Function]bool) ssa.Value {
	v = ir.Resolve(v)
	if namedOf(v.Type()) != r.provider {
		return nil
	}
	switch x := v.(type) {
	case *ssa.Alloc:
		return x
	case *ssa.Call:
		if cal := ir.StaticCallee(x); cal != nil && r.constructorVU(cal, visiting) {
			return x
		}
	}
	return nil
}

// escapesVU lists the instructions that hand the object o (a pointer) to somebody else: a call / go / defer that takes it
// as an argument or receiver, a store of the pointer, a closure that captures it, a send, a conversion to an interface
// that is used for anything but returning it. Field accesses, loads and returning it are not escapes.
func escapesVU(o ssa.Value) []ssa.Instruction {
	var res []ssa.Instruction
	seen := map[ssa.Value]bool{}
	var walk func(v ssa.Value)
	walk = func(v ssa.Value) {
		if seen[v] || v.Referrers() == nil {
			return
		}
		seen[v] = true
		for _, u := range *v.Referrers() {
			switch y := u.(type) {
			case *ssa.FieldAddr, *ssa.DebugRef, *ssa.Return:
			case *ssa.UnOp:
			case *ssa.MakeInterface:
				walk(y)
			case *ssa.ChangeInterface:
				walk(y)
			case *ssa.ChangeType:
				walk(y)
			case *ssa.Phi:
				walk(y)
			case *ssa.Store:
				if y.Val == v {
					res = append(res, u)
				}
			default:
				res = append(res, u)
			}
		}
	}
	walk(o)
	return res
}

// underConstructionVU: the store `at` into a field of the provider `base` is part of the construction of that provider:
// base is fresh in the storing function (allocated there or returned to it by a constructor) and on no path has it been
// handed to anybody before the store executes - nobody else can have seen the field yet, so the store cannot be the
// "change at run time" of a provider in use.
func (r *lockRoles) underConstructionVU(base ssa.Value, at ssa.Instruction) bool {
	o := r.freshProviderVU(base, map[*ssa.Function]bool{})
	if o == nil {
		return false
	}
	fn := at.Parent()
	for _, esc := range escapesVU(o) {
		if esc == at {
			continue
		}
		if w, err := (ir.Query{Fn: fn, From: esc, Target: func(x ssa.Instruction) bool { return x == at }}).Find(); w != nil || err != nil {
			return false
		}
	}
	return true
}
