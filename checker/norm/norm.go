// Package norm puts a package into a "helper-inlined" normal form at the source level.
//
// The structural rules of this checker are written against the shape the repository has today: the code of an
// operation sits in the exported method that implements it, plus a handful of private helpers the rules know by their
// role. A behaviour-preserving refactoring that moves a block into a new private helper, or runs a critical section as
// a closure under a withLock(func()) wrapper, changes nothing about the property but hides the code from an
// intra-procedural rule. Inlining is semantics preserving, so a verdict reached on the inlined program is a verdict about
// the original one. This package rewrites the SYNTAX (calls of private functions that no rule claims as a role, and
// calls of function literals / of local variables holding one) into straight-line statements; the result is type-checked
// again by the loader, and when it does not type-check the normal form is simply not used.
//
// Nothing is executed. The transformation is deliberately restricted (see inlinable); whatever it cannot handle is left
// as a call.
package norm

import (
	"sort"
	"bytes"
	"fmt"
	"go/ast"
	"go/printer"
	"go/token"
	"go/types"
	"reflect"
	"strings"

	"golang.org/x/tools/go/ast/astutil"
	"golang.org/x/tools/go/packages"
)

// ShortName names a function the way the rules do: "f", "(*T).m", "(T).m" (type arguments dropped).
func ShortName(obj *types.Func) string {
	sig, _ := obj.Type().(*types.Signature)
	if sig == nil || sig.Recv() == nil {
		return obj.Name()
	}
	t := sig.Recv().Type()
	ptr := ""
	if p, ok := t.(*types.Pointer); ok {
		ptr = "*"
		t = p.Elem()
	}
	name := "?"
	if nt, ok := t.(*types.Named); ok {
		name = nt.Obj().Name()
	}
	return "(" + ptr + name + ")." + obj.Name()
}

// Result of one round over one package.
type Result struct {
	Overlay map[string][]byte // file name -> new content (only changed files)
	Inlined []string          // "caller <- callee" for the evidence
}

// Round performs one round of inlining over pkg. exempt holds the full names (types.Func.FullName) of functions that must
// stay calls (role helpers).
func Round(pkg *packages.Package, exempt map[string]bool, counter *int) (*Result, error) {
	n := &normalizer{pkg: pkg, info: pkg.TypesInfo, exempt: exempt, counter: counter, decls: map[*types.Func]*ast.FuncDecl{}, declFile: map[*types.Func]*ast.File{}}
	for _, f := range pkg.Syntax {
		for _, d := range f.Decls {
			if fd, ok := d.(*ast.FuncDecl); ok && fd.Body != nil {
				if obj, ok := n.info.Defs[fd.Name].(*types.Func); ok {
					n.decls[obj] = fd
					n.declFile[obj] = f
				}
			}
		}
	}
	res := &Result{Overlay: map[string][]byte{}}
	for i, f := range pkg.Syntax {
		fname := pkg.CompiledGoFiles[i]
		if strings.HasSuffix(fname, "_test.go") || hasBuildTag(f) {
			continue
		}
		changed := false
		for _, d := range f.Decls {
			fd, ok := d.(*ast.FuncDecl)
			if !ok || fd.Body == nil {
				continue
			}
			n.cur = fd
			n.curFile = f
			n.curObj, _ = n.info.Defs[fd.Name].(*types.Func)
			if n.mutated == nil {
				n.mutated = map[*ast.FuncDecl]bool{}
			}
			before := len(n.log)
			if n.lowerDeferLiteral(fd) {
				changed = true
				n.mutated[fd] = true
				continue
			}
			if n.inlineExprHelpers(fd) {
				changed = true
			} else {
				if n.rewriteBlock(fd.Body.List, func(l []ast.Stmt) { fd.Body.List = l }) {
					changed = true
				}
				// the bodies of function literals (callbacks, goroutines) are statement lists of their own
				var lits []*ast.FuncLit
				ast.Inspect(fd.Body, func(x ast.Node) bool {
					if l, ok := x.(*ast.FuncLit); ok {
						lits = append(lits, l)
					}
					return true
				})
				for _, l := range lits {
					l := l
					if n.rewriteBlock(l.Body.List, func(nl []ast.Stmt) { l.Body.List = nl }) {
						changed = true
					}
				}
			}
			if n.dropDeadLiterals(fd) {
				changed = true
				n.mutated[fd] = true
			}
			if len(n.log) != before {
				n.mutated[fd] = true
			}
		}
		if !changed {
			continue
		}
		for _, imp := range n.needImports[f] {
			astutil.AddNamedImport(pkg.Fset, f, imp[0], imp[1])
		}
		f.Comments = nil
		var buf bytes.Buffer
		if err := (&printer.Config{Mode: printer.UseSpaces | printer.TabIndent, Tabwidth: 8}).Fprint(&buf, pkg.Fset, f); err != nil {
			return nil, fmt.Errorf("norm: print %s: %w", fname, err)
		}
		res.Overlay[fname] = buf.Bytes()
	}
	res.Inlined = n.log
	return res, nil
}

// lowerDeferLiteral rewrites the last top-level "defer func() { D }()" of fd into straight-line code:
//
//	S0; defer func() { D }(); S1        =>      S0; L: switch { default: S1' }; { D }; return
//
// where S1' is S1 with every "return X" turned into "results = X; break L" (the results get names when they have
// none). On every execution that does not panic the two run the same statements in the same order; what the rewrite
// drops is that D also runs while a panic unwinds, so the normal form says nothing about panicking executions (no rule
// of this checker is about them; a literal that calls recover() is left alone). The rewrite is refused when another
// defer statement follows (the relative order of the deferred calls would change), when the literal takes arguments,
// and when the body uses goto.
func (n *normalizer) lowerDeferLiteral(fd *ast.FuncDecl) bool {
	idx := -1
	for i, st := range fd.Body.List {
		if d, ok := st.(*ast.DeferStmt); ok {
			if lit, isLit := d.Call.Fun.(*ast.FuncLit); isLit && len(d.Call.Args) == 0 && (lit.Type.Params == nil || len(lit.Type.Params.List) == 0) &&
				(lit.Type.Results == nil || len(lit.Type.Results.List) == 0) {
				idx = i
			}
		}
	}
	if idx < 0 {
		return false
	}
	lit := fd.Body.List[idx].(*ast.DeferStmt).Call.Fun.(*ast.FuncLit)
	ok := true
	// no recover in the literal; no label/goto anywhere; no further defer behind it
	ast.Inspect(lit.Body, func(x ast.Node) bool {
		if call, isCall := x.(*ast.CallExpr); isCall {
			if id, isId := call.Fun.(*ast.Ident); isId && id.Name == "recover" {
				if _, isBuiltin := n.info.Uses[id].(*types.Builtin); isBuiltin {
					ok = false
				}
			}
		}
		return true
	})
	for i, st := range fd.Body.List {
		i := i
		ast.Inspect(st, func(x ast.Node) bool {
			switch y := x.(type) {
			case *ast.BranchStmt:
				if y.Tok == token.GOTO {
					ok = false
				}
			case *ast.DeferStmt:
				if i > idx {
					ok = false
				}
			}
			return true
		})
	}
	if !ok {
		return false
	}
	// the statements behind the defer must contain a return or end the function; a defer that is the last statement
	// simply runs D at the end
	// 1. results: name them, with fresh names (a local of the body may shadow a named result at a return statement)
	ren := map[types.Object]string{}
	var resNames []string
	var newResults *ast.FieldList
	if fd.Type.Results != nil {
		newResults = &ast.FieldList{}
		for _, f := range fd.Type.Results.List {
			nf := &ast.Field{Type: clone(f.Type, nil, n.info).(ast.Expr)}
			if len(f.Names) == 0 {
				nm := n.fresh("res")
				nf.Names = []*ast.Ident{ast.NewIdent(nm)}
				resNames = append(resNames, nm)
			}
			for _, id := range f.Names {
				nm := n.fresh(id.Name)
				if o := n.info.Defs[id]; o != nil && id.Name != "_" {
					ren[o] = nm
				}
				nf.Names = append(nf.Names, ast.NewIdent(nm))
				resNames = append(resNames, nm)
			}
			newResults.List = append(newResults.List, nf)
		}
	}
	nRes := len(resNames)
	body := clone(fd.Body, ren, n.info).(*ast.BlockStmt)
	s0 := body.List[:idx]
	dlit := body.List[idx].(*ast.DeferStmt).Call.Fun.(*ast.FuncLit)
	s1 := body.List[idx+1:]
	label := n.fresh("L")
	used := false
	okRet := true
	var lower func(list []ast.Stmt, lbl string, results bool) []ast.Stmt
	var visit func(st ast.Stmt, lbl string, results bool) ast.Stmt
	visit = func(st ast.Stmt, lbl string, results bool) ast.Stmt {
		switch x := st.(type) {
		case *ast.ReturnStmt:
			used = true
			var l []ast.Stmt
			if results && len(x.Results) > 0 {
				if len(x.Results) != nRes {
					if _, isCall := ast.Unparen(x.Results[0]).(*ast.CallExpr); !isCall || len(x.Results) != 1 {
						okRet = false
					}
				}
				lhs := make([]ast.Expr, nRes)
				for i, nm := range resNames {
					lhs[i] = ast.NewIdent(nm)
				}
				self := len(x.Results) == nRes
				for i, r := range x.Results {
					if id, isID := r.(*ast.Ident); !isID || i >= nRes || id.Name != resNames[i] {
						self = false
					}
				}
				if !self {
					l = append(l, &ast.AssignStmt{Lhs: lhs, Tok: token.ASSIGN, Rhs: x.Results})
				}
			}
			l = append(l, &ast.BranchStmt{Tok: token.BREAK, Label: ast.NewIdent(lbl)})
			return &ast.BlockStmt{List: l}
		case *ast.BlockStmt:
			x.List = lower(x.List, lbl, results)
		case *ast.LabeledStmt:
			x.Stmt = visit(x.Stmt, lbl, results)
		case *ast.IfStmt:
			x.Body.List = lower(x.Body.List, lbl, results)
			if x.Else != nil {
				x.Else = visit(x.Else, lbl, results)
			}
		case *ast.ForStmt:
			x.Body.List = lower(x.Body.List, lbl, results)
		case *ast.RangeStmt:
			x.Body.List = lower(x.Body.List, lbl, results)
		case *ast.SwitchStmt:
			for _, cc := range x.Body.List {
				cc.(*ast.CaseClause).Body = lower(cc.(*ast.CaseClause).Body, lbl, results)
			}
		case *ast.TypeSwitchStmt:
			for _, cc := range x.Body.List {
				cc.(*ast.CaseClause).Body = lower(cc.(*ast.CaseClause).Body, lbl, results)
			}
		case *ast.SelectStmt:
			for _, cc := range x.Body.List {
				cc.(*ast.CommClause).Body = lower(cc.(*ast.CommClause).Body, lbl, results)
			}
		}
		return st
	}
	lower = func(list []ast.Stmt, lbl string, results bool) []ast.Stmt {
		for i, st := range list {
			list[i] = visit(st, lbl, results)
		}
		return list
	}
	s1 = lower(append([]ast.Stmt{}, s1...), label, true)
	if !okRet {
		return false
	}
	var out []ast.Stmt
	out = append(out, s0...)
	if used {
		out = append(out, &ast.LabeledStmt{Label: ast.NewIdent(label), Stmt: &ast.SwitchStmt{Body: &ast.BlockStmt{List: []ast.Stmt{&ast.CaseClause{Body: s1}}}}})
	} else {
		out = append(out, &ast.BlockStmt{List: s1})
	}
	// D, with its own returns leaving D only
	used = false
	dl := n.fresh("L")
	dstmts := lower(dlit.Body.List, dl, false)
	if used {
		out = append(out, &ast.LabeledStmt{Label: ast.NewIdent(dl), Stmt: &ast.SwitchStmt{Body: &ast.BlockStmt{List: []ast.Stmt{&ast.CaseClause{Body: dstmts}}}}})
	} else {
		out = append(out, &ast.BlockStmt{List: dstmts})
	}
	out = append(out, &ast.ReturnStmt{})
	fd.Body = &ast.BlockStmt{List: out}
	if newResults != nil {
		fd.Type.Results = newResults
	}
	n.log = append(n.log, fd.Name.Name+" <- its deferred literal (lowered behind the body)")
	return true
}

func hasBuildTag(f *ast.File) bool {
	for _, cg := range f.Comments {
		for _, c := range cg.List {
			if strings.HasPrefix(c.Text, "//go:build") || strings.HasPrefix(c.Text, "// +build") {
				return true
			}
		}
	}
	return false
}

type normalizer struct {
	pkg         *packages.Package
	info        *types.Info
	exempt      map[string]bool
	counter     *int
	decls       map[*types.Func]*ast.FuncDecl
	declFile    map[*types.Func]*ast.File
	cur         *ast.FuncDecl
	curFile     *ast.File
	curObj      *types.Func
	log         []string
	needImports map[*ast.File][][2]string
	// mutated: declarations whose body was rewritten in this round. Their new nodes carry no type information, so they
	// cannot be cloned-and-renamed as a callee before the next round has type-checked them again.
	mutated map[*ast.FuncDecl]bool
}

// dropDeadLiterals removes "var x T = func(){...}; _ = x" pairs left behind when every call of x was inlined: the dead
// literal would otherwise stay in the program as an anonymous function that duplicates the inlined code.
func (n *normalizer) dropDeadLiterals(fd *ast.FuncDecl) bool {
	uses := map[types.Object]int{}
	ast.Inspect(fd.Body, func(x ast.Node) bool {
		if id, ok := x.(*ast.Ident); ok {
			if o := n.info.Uses[id]; o != nil {
				uses[o]++
			}
		}
		return true
	})
	// variables the type-checked program of this round did use (so the zero count now is the effect of inlining, not
	// an error of the source that the normal form would hide)
	inlinedLits := map[types.Object]bool{}
	for id, o := range n.info.Uses {
		if id.Pos() >= fd.Pos() && id.End() <= fd.End() {
			inlinedLits[o] = true
		}
	}
	changed := false
	var prune func(list []ast.Stmt) []ast.Stmt
	prune = func(list []ast.Stmt) []ast.Stmt {
		var out []ast.Stmt
		for i := 0; i < len(list); i++ {
			if ds, ok := list[i].(*ast.DeclStmt); ok && i+1 < len(list) {
				if gd, ok := ds.Decl.(*ast.GenDecl); ok && gd.Tok == token.VAR && len(gd.Specs) == 1 {
					vs := gd.Specs[0].(*ast.ValueSpec)
					if len(vs.Names) == 1 && len(vs.Values) == 1 {
						if _, isLit := ast.Unparen(vs.Values[0]).(*ast.FuncLit); isLit {
							o := n.info.Defs[vs.Names[0]]
							if as, ok := list[i+1].(*ast.AssignStmt); ok && len(as.Lhs) == 1 && len(as.Rhs) == 1 {
								l, lok := as.Lhs[0].(*ast.Ident)
								r, rok := as.Rhs[0].(*ast.Ident)
								if lok && rok && l.Name == "_" && o != nil && n.info.Uses[r] == o && uses[o] == 1 {
									i++ // skip both
									changed = true
									continue
								}
							}
						}
					}
				}
			}
			// "x := func(..) {..}" written in the source, every call of which was inlined: nothing refers to x any more
			// and the compiler would reject the unused variable (creating a function value has no effect)
			if as, ok := list[i].(*ast.AssignStmt); ok && as.Tok == token.DEFINE && len(as.Lhs) == 1 && len(as.Rhs) == 1 {
				if id, isID := as.Lhs[0].(*ast.Ident); isID && id.Name != "_" {
					if _, isLit := ast.Unparen(as.Rhs[0]).(*ast.FuncLit); isLit {
						if o := n.info.Defs[id]; o != nil && uses[o] == 0 && inlinedLits[o] {
							changed = true
							continue
						}
					}
				}
			}
			switch s := list[i].(type) {
			case *ast.BlockStmt:
				s.List = prune(s.List)
			case *ast.LabeledStmt:
				if sw, ok := s.Stmt.(*ast.SwitchStmt); ok {
					for _, cc := range sw.Body.List {
						cc.(*ast.CaseClause).Body = prune(cc.(*ast.CaseClause).Body)
					}
				}
			case *ast.IfStmt:
				s.Body.List = prune(s.Body.List)
				if b, ok := s.Else.(*ast.BlockStmt); ok {
					b.List = prune(b.List)
				}
			case *ast.ForStmt:
				s.Body.List = prune(s.Body.List)
			case *ast.RangeStmt:
				s.Body.List = prune(s.Body.List)
			}
			out = append(out, list[i])
		}
		return out
	}
	fd.Body.List = prune(fd.Body.List)
	// the bodies of function literals (callbacks) are statement lists of their own
	var lits []*ast.FuncLit
	ast.Inspect(fd.Body, func(x ast.Node) bool {
		if l, ok := x.(*ast.FuncLit); ok {
			lits = append(lits, l)
		}
		return true
	})
	for _, l := range lits {
		l.Body.List = prune(l.Body.List)
	}
	return changed
}

func (n *normalizer) fresh(base string) string {
	*n.counter++
	base = strings.TrimLeft(base, "_")
	if base == "" {
		base = "v"
	}
	return fmt.Sprintf("%s_inl%d", base, *n.counter)
}

// rewriteBlock rewrites the statements of one statement list (and, recursively, of the nested lists). At most one
// inlining per statement per round: nested calls are handled by the next round, with fresh type information.
func (n *normalizer) rewriteBlock(list []ast.Stmt, set func([]ast.Stmt)) bool {
	changed := false
	var out []ast.Stmt
	for _, st := range list {
		if repl, ok := n.inlineStmt(st); ok {
			out = append(out, repl...)
			changed = true
			continue
		}
		// nested statement lists
		switch s := st.(type) {
		case *ast.BlockStmt:
			if n.rewriteBlock(s.List, func(l []ast.Stmt) { s.List = l }) {
				changed = true
			}
		case *ast.IfStmt:
			if n.rewriteIf(s) {
				changed = true
			}
		case *ast.ForStmt:
			if n.rewriteBlock(s.Body.List, func(l []ast.Stmt) { s.Body.List = l }) {
				changed = true
			}
		case *ast.RangeStmt:
			if n.rewriteBlock(s.Body.List, func(l []ast.Stmt) { s.Body.List = l }) {
				changed = true
			}
		case *ast.SwitchStmt:
			for _, cc := range s.Body.List {
				c := cc.(*ast.CaseClause)
				if n.rewriteBlock(c.Body, func(l []ast.Stmt) { c.Body = l }) {
					changed = true
				}
			}
		case *ast.TypeSwitchStmt:
			for _, cc := range s.Body.List {
				c := cc.(*ast.CaseClause)
				if n.rewriteBlock(c.Body, func(l []ast.Stmt) { c.Body = l }) {
					changed = true
				}
			}
		case *ast.SelectStmt:
			for _, cc := range s.Body.List {
				c := cc.(*ast.CommClause)
				if n.rewriteBlock(c.Body, func(l []ast.Stmt) { c.Body = l }) {
					changed = true
				}
			}
		case *ast.LabeledStmt:
			// the statement under the label (the labeled switch an earlier inlining produced, a labeled loop)
			inner := []ast.Stmt{s.Stmt}
			if n.rewriteNested(inner) {
				changed = true
			}
		}
		out = append(out, st)
	}
	if changed {
		set(out)
	}
	return changed
}

// rewriteNested rewrites the statement lists nested in the given statements without replacing the statements themselves.
func (n *normalizer) rewriteNested(list []ast.Stmt) bool {
	changed := false
	for _, st := range list {
		switch s := st.(type) {
		case *ast.BlockStmt:
			if n.rewriteBlock(s.List, func(l []ast.Stmt) { s.List = l }) {
				changed = true
			}
		case *ast.IfStmt:
			if n.rewriteIf(s) {
				changed = true
			}
		case *ast.ForStmt:
			if n.rewriteBlock(s.Body.List, func(l []ast.Stmt) { s.Body.List = l }) {
				changed = true
			}
		case *ast.RangeStmt:
			if n.rewriteBlock(s.Body.List, func(l []ast.Stmt) { s.Body.List = l }) {
				changed = true
			}
		case *ast.SwitchStmt:
			for _, cc := range s.Body.List {
				c := cc.(*ast.CaseClause)
				if n.rewriteBlock(c.Body, func(l []ast.Stmt) { c.Body = l }) {
					changed = true
				}
			}
		case *ast.TypeSwitchStmt:
			for _, cc := range s.Body.List {
				c := cc.(*ast.CaseClause)
				if n.rewriteBlock(c.Body, func(l []ast.Stmt) { c.Body = l }) {
					changed = true
				}
			}
		case *ast.SelectStmt:
			for _, cc := range s.Body.List {
				c := cc.(*ast.CommClause)
				if n.rewriteBlock(c.Body, func(l []ast.Stmt) { c.Body = l }) {
					changed = true
				}
			}
		}
	}
	return changed
}

func (n *normalizer) rewriteIf(s *ast.IfStmt) bool {
	changed := false
	if n.rewriteBlock(s.Body.List, func(l []ast.Stmt) { s.Body.List = l }) {
		changed = true
	}
	switch e := s.Else.(type) {
	case *ast.BlockStmt:
		if n.rewriteBlock(e.List, func(l []ast.Stmt) { e.List = l }) {
			changed = true
		}
	case *ast.IfStmt:
		if n.rewriteIf(e) {
			changed = true
		}
	}
	return changed
}

// callee describes what a call invokes, when it can be inlined.
type callee struct {
	name    string
	typ     *ast.FuncType
	body    *ast.BlockStmt
	recv    *ast.Field // receiver declaration (methods)
	recvArg ast.Expr   // receiver expression at the call site (already adjusted with & or *)
	args    []ast.Expr
	fromLit bool // a function literal of the caller itself: free identifiers are the caller's own
	file    *ast.File
	objs    map[types.Object]bool // objects declared inside the callee (params, results, locals)
	// nestedDefer: the body has one defer statement inside a nested block (if tmr != nil { defer tmr.Stop() }): it is
	// turned into the assignment of a closure to a fresh variable that is called behind the inlined body
	nestedDefer bool
}

// inlineStmt tries to inline the (single) call that statement st consists of.
func (n *normalizer) inlineStmt(st ast.Stmt) ([]ast.Stmt, bool) {
	var call *ast.CallExpr
	kind := ""
	switch s := st.(type) {
	case *ast.ExprStmt:
		call, _ = ast.Unparen(s.X).(*ast.CallExpr)
		kind = "expr"
	case *ast.AssignStmt:
		if len(s.Rhs) == 1 && (s.Tok == token.ASSIGN || s.Tok == token.DEFINE) {
			call, _ = ast.Unparen(s.Rhs[0]).(*ast.CallExpr)
			kind = "assign"
		}
	case *ast.ReturnStmt:
		if len(s.Results) == 1 {
			call, _ = ast.Unparen(s.Results[0]).(*ast.CallExpr)
			kind = "return"
		}
	case *ast.IfStmt:
		// if x := h(); cond {...}  /  if h() {...}  ->  { <inlined>; if cond {...} }
		if s.Init != nil {
			if repl, ok := n.inlineStmt(s.Init); ok {
				s2 := *s
				s2.Init = nil
				return []ast.Stmt{&ast.BlockStmt{List: append(repl, &s2)}}, true
			}
			return nil, false
		}
		if c, ok := ast.Unparen(s.Cond).(*ast.CallExpr); ok {
			if cal := n.resolve(c); cal != nil && cal.typ.Results != nil && cal.typ.Results.NumFields() == 1 {
				tmp := n.fresh("cond")
				as := &ast.AssignStmt{Lhs: []ast.Expr{ast.NewIdent(tmp)}, Tok: token.DEFINE, Rhs: []ast.Expr{c}}
				if repl, ok := n.expand(cal, as, "assign"); ok {
					s2 := *s
					s2.Cond = ast.NewIdent(tmp)
					return []ast.Stmt{&ast.BlockStmt{List: append(repl, &s2)}}, true
				}
			}
		}
		if repl, ok := n.hoist(st); ok {
			return repl, true
		}
		// if a && h() { S }  (no else): the helper call is evaluated conditionally and cannot be moved in front of the
		// statement; split the conjunction into nested ifs - the inner condition is handled by the next round
		if s.Else == nil && s.Init == nil {
			if be, isBin := ast.Unparen(s.Cond).(*ast.BinaryExpr); isBin && be.Op == token.LAND && n.hasInlinableCall(be.Y) {
				inner := &ast.IfStmt{Cond: be.Y, Body: s.Body}
				outer := &ast.IfStmt{Cond: be.X, Body: &ast.BlockStmt{List: []ast.Stmt{inner}}}
				return []ast.Stmt{outer}, true
			}
		}
		// if a || h() { S } else { T }   and   if a && h() { S } else { T }: the helper call is evaluated conditionally.
		// The decision is computed into a flag with the same short-circuit order, so that the call becomes a statement:
		//     run := false; if a { run = true } else { t := h(); if t { run = true } };  if run { S } else { T }
		//     run := false; if a { t := h(); if t { run = true } };                      if run { S } else { T }
		if s.Init == nil {
			if be, isBin := ast.Unparen(s.Cond).(*ast.BinaryExpr); isBin && (be.Op == token.LOR || be.Op == token.LAND) && n.hasInlinableCall(be.Y) {
				run, t := n.fresh("run"), n.fresh("t")
				setRun := func() ast.Stmt {
					return &ast.AssignStmt{Lhs: []ast.Expr{ast.NewIdent(run)}, Tok: token.ASSIGN, Rhs: []ast.Expr{ast.NewIdent("true")}}
				}
				second := []ast.Stmt{
					&ast.AssignStmt{Lhs: []ast.Expr{ast.NewIdent(t)}, Tok: token.DEFINE, Rhs: []ast.Expr{be.Y}},
					&ast.IfStmt{Cond: ast.NewIdent(t), Body: &ast.BlockStmt{List: []ast.Stmt{setRun()}}},
				}
				var first ast.Stmt
				if be.Op == token.LOR {
					first = &ast.IfStmt{Cond: be.X, Body: &ast.BlockStmt{List: []ast.Stmt{setRun()}}, Else: &ast.BlockStmt{List: second}}
				} else {
					first = &ast.IfStmt{Cond: be.X, Body: &ast.BlockStmt{List: second}}
				}
				s2 := *s
				s2.Cond = ast.NewIdent(run)
				decl := &ast.AssignStmt{Lhs: []ast.Expr{ast.NewIdent(run)}, Tok: token.DEFINE, Rhs: []ast.Expr{ast.NewIdent("false")}}
				return []ast.Stmt{&ast.BlockStmt{List: []ast.Stmt{decl, first, &s2}}}, true
			}
		}
		return nil, false
	}
	if call != nil {
		if cal := n.resolve(call); cal != nil {
			if repl, ok := n.expand(cal, st, kind); ok {
				return repl, true
			}
		}
	}
	return n.hoist(st)
}

// hasInlinableCall reports whether e contains a call the normaliser could inline at statement level.
func (n *normalizer) hasInlinableCall(e ast.Expr) bool {
	found := false
	ast.Inspect(e, func(x ast.Node) bool {
		if _, isLit := x.(*ast.FuncLit); isLit {
			return false
		}
		if c, ok := x.(*ast.CallExpr); ok && !found {
			if cal := n.resolve(c); cal != nil && cal.typ.Results != nil && cal.typ.Results.NumFields() == 1 {
				found = true
			}
		}
		return true
	})
	return found
}

// hoist moves the first call (in evaluation order) of a simple statement into a temporary when that call can be
// inlined: "return h(x), nil" becomes "t := h(x); return t, nil", and the assignment is inlined at once.
func (n *normalizer) hoist(st ast.Stmt) ([]ast.Stmt, bool) {
	var roots []*ast.Expr
	switch s := st.(type) {
	case *ast.ExprStmt:
		roots = append(roots, &s.X)
	case *ast.AssignStmt:
		for i := range s.Rhs {
			roots = append(roots, &s.Rhs[i])
		}
	case *ast.ReturnStmt:
		for i := range s.Results {
			roots = append(roots, &s.Results[i])
		}
	case *ast.IfStmt:
		if s.Init == nil {
			roots = append(roots, &s.Cond)
		}
	case *ast.SendStmt:
		roots = append(roots, &s.Value)
	default:
		return nil, false
	}
	// calls in evaluation order; stop at lazily evaluated operands, receives and function literals
	var order []*ast.Expr
	stop := false
	var visit func(e *ast.Expr)
	visit = func(e *ast.Expr) {
		if stop || *e == nil {
			return
		}
		switch x := (*e).(type) {
		case *ast.FuncLit:
			return
		case *ast.ParenExpr:
			visit(&x.X)
		case *ast.BinaryExpr:
			visit(&x.X)
			if x.Op == token.LAND || x.Op == token.LOR {
				has := false
				ast.Inspect(x.Y, func(y ast.Node) bool {
					if _, ok := y.(*ast.CallExpr); ok {
						has = true
					}
					return true
				})
				if has {
					stop = true // a call in the right operand is evaluated conditionally
				}
				return
			}
			visit(&x.Y)
		case *ast.UnaryExpr:
			if x.Op == token.ARROW {
				stop = true
				return
			}
			visit(&x.X)
		case *ast.StarExpr:
			visit(&x.X)
		case *ast.SelectorExpr:
			visit(&x.X)
		case *ast.IndexExpr:
			visit(&x.X)
			visit(&x.Index)
		case *ast.SliceExpr:
			visit(&x.X)
			visit(&x.Low)
			visit(&x.High)
			visit(&x.Max)
		case *ast.TypeAssertExpr:
			visit(&x.X)
		case *ast.KeyValueExpr:
			visit(&x.Value)
		case *ast.CompositeLit:
			for i := range x.Elts {
				visit(&x.Elts[i])
			}
		case *ast.CallExpr:
			if tv, ok := n.info.Types[x.Fun]; ok && tv.IsType() {
				for i := range x.Args {
					visit(&x.Args[i])
				}
				return
			}
			visit(&x.Fun)
			for i := range x.Args {
				visit(&x.Args[i])
			}
			if stop {
				return
			}
			if tv, ok := n.info.Types[x.Fun]; ok && tv.IsBuiltin() {
				return
			}
			order = append(order, e)
		}
	}
	for _, r := range roots {
		visit(r)
		if stop {
			break
		}
	}
	// the first inlinable call; the calls evaluated before it are moved into temporaries as well (order preserved)
	idx := -1
	for i, e := range order {
		c := (*e).(*ast.CallExpr)
		isRoot := false
		for _, r := range roots {
			if ast.Unparen(*r) == ast.Expr(c) {
				isRoot = true
			}
		}
		if isRoot {
			if _, isRet := st.(*ast.ReturnStmt); (!isRet || len(roots) == 1) && !isIfStmt(st) {
				continue // the statement is this call: handled by the direct forms
			}
		}
		if cal := n.resolve(c); cal != nil && cal.typ.Results != nil && cal.typ.Results.NumFields() == 1 && len(cal.typ.Results.List[0].Names) <= 1 {
			idx = i
			break
		}
	}
	if idx < 0 {
		return nil, false
	}
	var pre []ast.Stmt
	for i := 0; i < idx; i++ {
		c := (*order[i]).(*ast.CallExpr)
		tv, ok := n.info.Types[c]
		if !ok || tv.Type == nil {
			return nil, false
		}
		if _, isTuple := tv.Type.(*types.Tuple); isTuple {
			return nil, false
		}
		if b, isBasic := tv.Type.(*types.Basic); isBasic && b.Kind() == types.Invalid {
			return nil, false
		}
		tmp := n.fresh("t")
		pre = append(pre, &ast.AssignStmt{Lhs: []ast.Expr{ast.NewIdent(tmp)}, Tok: token.DEFINE, Rhs: []ast.Expr{c}})
		*order[i] = ast.NewIdent(tmp)
	}
	first := order[idx]
	call := (*first).(*ast.CallExpr)
	cal := n.resolve(call)
	if cal == nil || cal.typ.Results == nil || cal.typ.Results.NumFields() != 1 {
		return nil, false
	}
	if len(cal.typ.Results.List[0].Names) > 1 {
		return nil, false
	}
	tmp := n.fresh("t")
	as := &ast.AssignStmt{Lhs: []ast.Expr{ast.NewIdent(tmp)}, Tok: token.DEFINE, Rhs: []ast.Expr{call}}
	repl, ok := n.expand(cal, as, "assign")
	if !ok {
		return nil, false
	}
	*first = ast.NewIdent(tmp)
	repl = append(pre, repl...)
	if ifs, isIf := st.(*ast.IfStmt); isIf {
		return []ast.Stmt{&ast.BlockStmt{List: append(repl, ifs)}}, true
	}
	return append(repl, st), true
}

func isIfStmt(st ast.Stmt) bool {
	_, ok := st.(*ast.IfStmt)
	return ok
}

// resolve decides whether call can be inlined and collects what is needed.
func (n *normalizer) resolve(call *ast.CallExpr) *callee {
	if call.Ellipsis.IsValid() {
		return nil
	}
	fun := ast.Unparen(call.Fun)
	// 1. an immediately invoked function literal
	if lit, ok := fun.(*ast.FuncLit); ok {
		return n.litCallee("func literal", lit, call.Args)
	}
	// 2. a local variable that holds a function literal (assigned exactly once, at its declaration)
	if id, ok := fun.(*ast.Ident); ok {
		if v, isVar := n.info.Uses[id].(*types.Var); isVar && !v.IsField() && v.Parent() != nil && v.Parent() != n.pkg.Types.Scope() {
			if lit := n.singleLiteral(v); lit != nil {
				return n.litCallee(id.Name, lit, call.Args)
			}
			return nil
		}
	}
	// 3. a private function or method of this package that no rule claims as a role
	var obj *types.Func
	var recvArg ast.Expr
	switch f := fun.(type) {
	case *ast.Ident:
		obj, _ = n.info.Uses[f].(*types.Func)
	case *ast.SelectorExpr:
		sel := n.info.Selections[f]
		if sel == nil || sel.Kind() != types.MethodVal || len(sel.Index()) != 1 {
			return nil
		}
		obj, _ = sel.Obj().(*types.Func)
		if obj == nil {
			return nil
		}
		sig := obj.Type().(*types.Signature)
		_, wantPtr := sig.Recv().Type().(*types.Pointer)
		_, havePtr := n.info.TypeOf(f.X).Underlying().(*types.Pointer)
		switch {
		case wantPtr == havePtr:
			recvArg = f.X
		case wantPtr && !havePtr:
			recvArg = &ast.UnaryExpr{Op: token.AND, X: f.X}
		default:
			recvArg = &ast.StarExpr{X: f.X}
		}
	default:
		return nil
	}
	if obj == nil || obj.Pkg() != n.pkg.Types || obj.Exported() || n.exempt[ShortName(obj)] || obj == n.curObj {
		return nil
	}
	fd := n.decls[obj.Origin()]
	if fd == nil {
		fd = n.decls[obj]
	}
	if fd == nil || fd.Body == nil || n.mutated[fd] {
		return nil
	}
	sig := obj.Type().(*types.Signature)
	if sig.Variadic() || sig.TypeParams().Len() > 0 {
		return nil
	}
	// methods of a generic type: only from a method of the same type with the same type parameter names
	if fd.Recv != nil && !n.sameTypeParams(fd) {
		return nil
	}
	if fd.Recv == nil && recvArg != nil {
		return nil
	}
	if n.callsItself(fd, obj) {
		return nil
	}
	c := &callee{name: obj.Name(), typ: fd.Type, body: fd.Body, recvArg: recvArg, args: call.Args, file: n.declFile[obj.Origin()]}
	if c.file == nil {
		c.file = n.declFile[obj]
	}
	if fd.Recv != nil && len(fd.Recv.List) == 1 {
		c.recv = fd.Recv.List[0]
	}
	if !n.inlinableBody(c) {
		return nil
	}
	return c
}

func (n *normalizer) litCallee(name string, lit *ast.FuncLit, args []ast.Expr) *callee {
	c := &callee{name: name, typ: lit.Type, body: lit.Body, args: args, fromLit: true, file: n.curFile}
	if !n.inlinableBody(c) {
		return nil
	}
	return c
}

// singleLiteral returns the function literal v is initialised with, when v is never assigned again and never has its
// address taken, inside the current function.
func (n *normalizer) singleLiteral(v *types.Var) *ast.FuncLit {
	var lit *ast.FuncLit
	ok := true
	ast.Inspect(n.cur.Body, func(x ast.Node) bool {
		switch s := x.(type) {
		case *ast.AssignStmt:
			for i, l := range s.Lhs {
				id, isID := l.(*ast.Ident)
				if !isID {
					continue
				}
				if n.info.Defs[id] == types.Object(v) && s.Tok == token.DEFINE && len(s.Rhs) == len(s.Lhs) {
					lit, _ = ast.Unparen(s.Rhs[i]).(*ast.FuncLit)
					if lit == nil {
						ok = false
					}
				} else if n.info.Uses[id] == types.Object(v) {
					ok = false
				}
			}
		case *ast.ValueSpec:
			for i, id := range s.Names {
				if n.info.Defs[id] == types.Object(v) {
					if len(s.Values) == len(s.Names) {
						lit, _ = ast.Unparen(s.Values[i]).(*ast.FuncLit)
					}
					if lit == nil {
						ok = false
					}
				}
			}
		case *ast.UnaryExpr:
			if id, isID := s.X.(*ast.Ident); isID && s.Op == token.AND && n.info.Uses[id] == types.Object(v) {
				ok = false
			}
		}
		return true
	})
	if !ok {
		return nil
	}
	return lit
}

func (n *normalizer) sameTypeParams(callee *ast.FuncDecl) bool {
	names := func(fd *ast.FuncDecl) []string {
		if fd.Recv == nil || len(fd.Recv.List) != 1 {
			return nil
		}
		t := fd.Recv.List[0].Type
		if s, ok := t.(*ast.StarExpr); ok {
			t = s.X
		}
		var res []string
		switch x := t.(type) {
		case *ast.IndexExpr:
			if id, ok := x.Index.(*ast.Ident); ok {
				res = append(res, id.Name)
			}
		case *ast.IndexListExpr:
			for _, e := range x.Indices {
				if id, ok := e.(*ast.Ident); ok {
					res = append(res, id.Name)
				}
			}
		}
		return res
	}
	a := names(callee)
	if len(a) == 0 {
		return true // not generic
	}
	// the receiver type names must be the same generic type as well
	base := func(fd *ast.FuncDecl) string {
		if fd.Recv == nil || len(fd.Recv.List) != 1 {
			return ""
		}
		t := fd.Recv.List[0].Type
		if s, ok := t.(*ast.StarExpr); ok {
			t = s.X
		}
		switch x := t.(type) {
		case *ast.IndexExpr:
			return types.ExprString(x.X)
		case *ast.IndexListExpr:
			return types.ExprString(x.X)
		}
		return ""
	}
	b := names(n.cur)
	if len(a) != len(b) {
		// a generic helper type used from another generic type with the same parameter names (node type of a map)
		b = n.typeParamNamesInScope()
	}
	if len(b) < len(a) {
		return false
	}
	_ = base
	for _, x := range a {
		found := false
		for _, y := range b {
			if x == y {
				found = true
			}
		}
		if !found {
			return false
		}
	}
	return true
}

func (n *normalizer) typeParamNamesInScope() []string {
	var res []string
	if n.cur.Recv != nil && len(n.cur.Recv.List) == 1 {
		t := n.cur.Recv.List[0].Type
		if s, ok := t.(*ast.StarExpr); ok {
			t = s.X
		}
		switch x := t.(type) {
		case *ast.IndexExpr:
			if id, ok := x.Index.(*ast.Ident); ok {
				res = append(res, id.Name)
			}
		case *ast.IndexListExpr:
			for _, e := range x.Indices {
				if id, ok := e.(*ast.Ident); ok {
					res = append(res, id.Name)
				}
			}
		}
	}
	if n.cur.Type.TypeParams != nil {
		for _, f := range n.cur.Type.TypeParams.List {
			for _, id := range f.Names {
				res = append(res, id.Name)
			}
		}
	}
	return res
}

func (n *normalizer) callsItself(fd *ast.FuncDecl, obj *types.Func) bool {
	rec := false
	ast.Inspect(fd.Body, func(x ast.Node) bool {
		if id, ok := x.(*ast.Ident); ok {
			if f, isF := n.info.Uses[id].(*types.Func); isF && (f == obj || f.Origin() == obj.Origin()) {
				rec = true
			}
		}
		return true
	})
	return rec
}

// inlinableBody: no labels/goto/recover; defer only as a direct statement of the body (it is moved behind the body);
// the identifiers the body uses from the package scope are not shadowed at the call site.
func (n *normalizer) inlinableBody(c *callee) bool {
	ok := true
	nDefer := 0
	for _, st := range c.body.List {
		if _, isDefer := st.(*ast.DeferStmt); isDefer {
			nDefer++
		}
	}
	total := 0
	var walk func(x ast.Node, inLit bool) bool
	walk = func(x ast.Node, inLit bool) bool { return true }
	_ = walk
	ast.Inspect(c.body, func(x ast.Node) bool {
		switch s := x.(type) {
		case *ast.FuncLit:
			return false // statements inside nested literals belong to them
		case *ast.DeferStmt:
			total++
		case *ast.LabeledStmt:
			// labels are renamed with the other objects of the body (an earlier expansion left L_inl* labels behind)
		case *ast.BranchStmt:
			if s.Tok == token.GOTO {
				ok = false
			}
		case *ast.CallExpr:
			if id, isID := s.Fun.(*ast.Ident); isID && id.Name == "recover" {
				ok = false
			}
		}
		return true
	})
	if total > 1 {
		return false
	}
	// a top-level defer whose call mentions only parameters / the receiver / package-level names is simply moved behind
	// the body (mu.Unlock() stays a visible call); otherwise (nested, or operands that are locals of the body) it is kept
	// as a closure in a fresh variable
	c.nestedDefer = false
	if total == 1 {
		if nDefer == 0 {
			c.nestedDefer = true
		} else {
			params := map[types.Object]bool{}
			addFL := func(fl *ast.FieldList) {
				if fl == nil {
					return
				}
				for _, f := range fl.List {
					for _, id := range f.Names {
						if o := n.info.Defs[id]; o != nil {
							params[o] = true
						}
					}
				}
			}
			addFL(c.typ.Params)
			addFL(c.typ.Results)
			if c.recv != nil {
				for _, id := range c.recv.Names {
					if o := n.info.Defs[id]; o != nil {
						params[o] = true
					}
				}
			}
			for _, st := range c.body.List {
				if d, isDefer := st.(*ast.DeferStmt); isDefer {
					ast.Inspect(d.Call, func(x ast.Node) bool {
						if _, isLit := x.(*ast.FuncLit); isLit {
							// the body of a deferred literal reads its variables when it runs (captured by reference), not at
							// the defer statement: running it behind the body, in their scope, is exact
							return false
						}
						if id, ok := x.(*ast.Ident); ok {
							if o := n.info.Uses[id]; o != nil {
								if v, isVar := o.(*types.Var); isVar && !v.IsField() && v.Parent() != nil && v.Parent() != n.pkg.Types.Scope() && !params[o] {
									c.nestedDefer = true // a local of the body
								}
							}
						}
						return true
					})
				}
			}
		}
	}
	if !ok {
		return false
	}
	// objects declared inside the callee
	c.objs = map[types.Object]bool{}
	collect := func(fl *ast.FieldList) {
		if fl == nil {
			return
		}
		for _, f := range fl.List {
			for _, id := range f.Names {
				if o := n.info.Defs[id]; o != nil {
					c.objs[o] = true
				}
			}
		}
	}
	collect(c.typ.Params)
	collect(c.typ.Results)
	if c.recv != nil {
		for _, id := range c.recv.Names {
			if o := n.info.Defs[id]; o != nil {
				c.objs[o] = true
			}
		}
	}
	ast.Inspect(c.body, func(x ast.Node) bool {
		if id, isID := x.(*ast.Ident); isID && id.Name != "_" {
			if o := n.info.Defs[id]; o != nil {
				c.objs[o] = true
			}
		}
		return true
	})
	if c.fromLit {
		return true
	}
	// hygiene: every free identifier of the body (package-level or universe object) must mean the same at the call site
	callerScope := n.pkg.Types.Scope().Innermost(n.cur.Body.Pos())
	hyg := true
	ast.Inspect(c.body, func(x ast.Node) bool {
		id, isID := x.(*ast.Ident)
		if !isID {
			return true
		}
		o := n.info.Uses[id]
		if o == nil || c.objs[o] {
			return true
		}
		if _, isField := o.(*types.Var); isField && o.(*types.Var).IsField() {
			return true
		}
		if _, isPkg := o.(*types.PkgName); isPkg {
			return true // imports are added to the caller's file
		}
		if o.Parent() == nil {
			return true // methods, fields
		}
		if tn, isTN := o.(*types.TypeName); isTN {
			if _, isTP := tn.Type().(*types.TypeParam); isTP {
				return true // same type parameter names were checked by sameTypeParams
			}
		}
		// any local of the caller with this name would capture it
		if n.callerDeclares(id.Name) {
			hyg = false
		}
		return true
	})
	_ = callerScope
	return hyg
}

func (n *normalizer) callerDeclares(name string) bool {
	found := false
	ast.Inspect(n.cur, func(x ast.Node) bool {
		if id, ok := x.(*ast.Ident); ok && id.Name == name {
			if o := n.info.Defs[id]; o != nil {
				if _, isFn := o.(*types.Func); !isFn {
					found = true
				}
			}
		}
		return true
	})
	return found
}

// expand builds the statements that replace st.
func (n *normalizer) expand(c *callee, st ast.Stmt, kind string) ([]ast.Stmt, bool) {
	ren := map[types.Object]string{}
	// (in source order, so that the fresh names - and with them the text of the normal form - are the same on every run)
	var objs []types.Object
	for o := range c.objs {
		objs = append(objs, o)
	}
	sort.Slice(objs, func(i, j int) bool {
		if objs[i].Pos() != objs[j].Pos() {
			return objs[i].Pos() < objs[j].Pos()
		}
		return objs[i].Name() < objs[j].Name()
	})
	for _, o := range objs {
		if c.fromLit {
			// only the literal's own parameters and results need new names; its locals live in their own block
			continue
		}
		ren[o] = n.fresh(o.Name())
	}
	var out []ast.Stmt
	declare := func(name string, typ ast.Expr, val ast.Expr) {
		spec := &ast.ValueSpec{Names: []*ast.Ident{ast.NewIdent(name)}, Type: typ}
		if val != nil {
			spec.Values = []ast.Expr{val}
		}
		out = append(out, &ast.DeclStmt{Decl: &ast.GenDecl{Tok: token.VAR, Specs: []ast.Spec{spec}}})
		out = append(out, &ast.AssignStmt{Lhs: []ast.Expr{ast.NewIdent("_")}, Tok: token.ASSIGN, Rhs: []ast.Expr{ast.NewIdent(name)}})
	}
	paramName := func(id *ast.Ident) string {
		o := n.info.Defs[id]
		if o == nil || id.Name == "_" {
			return n.fresh("p")
		}
		if c.fromLit {
			nm := n.fresh(id.Name)
			ren[o] = nm
			return nm
		}
		return ren[o]
	}
	// receiver
	if c.recv != nil {
		if c.recvArg == nil {
			return nil, false
		}
		nm := n.fresh("recv")
		if len(c.recv.Names) == 1 {
			nm = paramName(c.recv.Names[0])
		}
		declare(nm, clone(c.recv.Type, nil, n.info).(ast.Expr), c.recvArg)
	}
	// parameters
	ai := 0
	if c.typ.Params != nil {
		for _, f := range c.typ.Params.List {
			names := f.Names
			if len(names) == 0 {
				names = []*ast.Ident{ast.NewIdent("_")}
			}
			for _, id := range names {
				if ai >= len(c.args) {
					return nil, false
				}
				declare(paramName(id), clone(f.Type, nil, n.info).(ast.Expr), c.args[ai])
				ai++
			}
		}
	}
	if ai != len(c.args) {
		return nil, false
	}
	// results
	var resNames []string
	nRes := 0
	if c.typ.Results != nil {
		for _, f := range c.typ.Results.List {
			k := len(f.Names)
			if k == 0 {
				k = 1
			}
			for i := 0; i < k; i++ {
				nm := n.fresh("res")
				if len(f.Names) > 0 {
					nm = paramName(f.Names[i])
				}
				resNames = append(resNames, nm)
				declare(nm, clone(f.Type, nil, n.info).(ast.Expr), nil)
				nRes++
			}
		}
	}
	// body
	body := clone(c.body, ren, n.info).(*ast.BlockStmt)
	// parameters and named results live in the scope of the body's top-level statements, so "x, y := f()" there re-uses
	// an x that is a parameter/result. In the expansion the body becomes a nested block and the same statement would
	// declare a new x, leaving the result variable unassigned: route the re-used names through temporaries.
	{
		var nl []ast.Stmt
		for i, s := range body.List {
			nl = append(nl, s)
			orig, isAs := c.body.List[i].(*ast.AssignStmt)
			cp, _ := s.(*ast.AssignStmt)
			if !isAs || cp == nil || orig.Tok != token.DEFINE {
				continue
			}
			for j, l := range orig.Lhs {
				id, isID := l.(*ast.Ident)
				if !isID || id.Name == "_" || n.info.Defs[id] != nil {
					continue
				}
				tmp := n.fresh(id.Name + "_re")
				target := cp.Lhs[j]
				cp.Lhs[j] = ast.NewIdent(tmp)
				nl = append(nl, &ast.AssignStmt{Lhs: []ast.Expr{target}, Tok: token.ASSIGN, Rhs: []ast.Expr{ast.NewIdent(tmp)}})
			}
		}
		body.List = nl
	}
	deferVar := ""
	if c.nestedDefer {
		deferVar = n.fresh("deferred")
		out = append(out, &ast.DeclStmt{Decl: &ast.GenDecl{Tok: token.VAR, Specs: []ast.Spec{&ast.ValueSpec{
			Names: []*ast.Ident{ast.NewIdent(deferVar)}, Type: &ast.FuncType{Params: &ast.FieldList{}}}}}})
		astutil.Apply(body, func(cur *astutil.Cursor) bool {
			if _, isLit := cur.Node().(*ast.FuncLit); isLit {
				return false
			}
			if d, isDefer := cur.Node().(*ast.DeferStmt); isDefer {
				cur.Replace(&ast.AssignStmt{Lhs: []ast.Expr{ast.NewIdent(deferVar)}, Tok: token.ASSIGN,
					Rhs: []ast.Expr{&ast.FuncLit{Type: &ast.FuncType{Params: &ast.FieldList{}}, Body: &ast.BlockStmt{List: []ast.Stmt{&ast.ExprStmt{X: d.Call}}}}}})
				return false
			}
			return true
		}, nil)
	}
	label := n.fresh("L")
	usedLabel := false
	preLabel := n.fresh("L")
	usedPreLabel := false
	var deferred *ast.DeferStmt
	var pre, stmts []ast.Stmt
	for _, s := range body.List {
		if d, ok := s.(*ast.DeferStmt); ok && !c.nestedDefer {
			deferred = d
			pre, stmts = stmts, nil
			continue
		}
		stmts = append(stmts, s)
	}
	if deferred != nil {
		// the operands of the deferred call are evaluated at the defer statement; the call is placed behind the
		// statements that follow it, so they must not change there
		after := false
		used := map[types.Object]bool{}
		changed := false
		for _, s := range c.body.List {
			if d, ok := s.(*ast.DeferStmt); ok {
				after = true
				ast.Inspect(d.Call, func(x ast.Node) bool {
					if _, isLit := x.(*ast.FuncLit); isLit {
						return false
					}
					if id, ok := x.(*ast.Ident); ok {
						if o, isVar := n.info.Uses[id].(*types.Var); isVar && !o.IsField() {
							used[o] = true
						}
					}
					return true
				})
				continue
			}
			if !after {
				continue
			}
			ast.Inspect(s, func(x ast.Node) bool {
				mark := func(e ast.Expr) {
					if id, ok := ast.Unparen(e).(*ast.Ident); ok {
						if o := n.info.Uses[id]; o != nil && used[o] {
							changed = true
						}
					}
				}
				switch y := x.(type) {
				case *ast.AssignStmt:
					for _, l := range y.Lhs {
						mark(l)
					}
				case *ast.IncDecStmt:
					mark(y.X)
				case *ast.UnaryExpr:
					if y.Op == token.AND {
						mark(y.X)
					}
				case *ast.RangeStmt:
					if y.Key != nil {
						mark(y.Key)
					}
					if y.Value != nil {
						mark(y.Value)
					}
				}
				return true
			})
		}
		if changed {
			return nil, false
		}
	}
	// a trailing return needs no jump
	var tail *ast.ReturnStmt
	if len(stmts) > 0 {
		if r, ok := stmts[len(stmts)-1].(*ast.ReturnStmt); ok {
			tail = r
			stmts = stmts[:len(stmts)-1]
		}
	}
	assignResults := func(r *ast.ReturnStmt) []ast.Stmt {
		if len(r.Results) == 0 || nRes == 0 {
			return nil
		}
		lhs := make([]ast.Expr, nRes)
		for i, nm := range resNames {
			lhs[i] = ast.NewIdent(nm)
		}
		return []ast.Stmt{&ast.AssignStmt{Lhs: lhs, Tok: token.ASSIGN, Rhs: r.Results}}
	}
	okRet := true
	curLabel, curUsed := label, &usedLabel
	var replaceReturns func(list []ast.Stmt) []ast.Stmt
	var visitStmt func(s ast.Stmt) ast.Stmt
	visitStmt = func(s ast.Stmt) ast.Stmt {
		switch x := s.(type) {
		case *ast.ReturnStmt:
			if len(x.Results) != 0 && len(x.Results) != nRes {
				// "return f()" with a tuple: r1, r2 = f() is the same assignment
				if _, isCall := ast.Unparen(x.Results[0]).(*ast.CallExpr); !isCall || len(x.Results) != 1 {
					okRet = false
				}
			}
			*curUsed = true
			l := append(assignResults(x), &ast.BranchStmt{Tok: token.BREAK, Label: ast.NewIdent(curLabel)})
			return &ast.BlockStmt{List: l}
		case *ast.BlockStmt:
			x.List = replaceReturns(x.List)
		case *ast.LabeledStmt:
			x.Stmt = visitStmt(x.Stmt)
		case *ast.IfStmt:
			x.Body.List = replaceReturns(x.Body.List)
			if x.Else != nil {
				x.Else = visitStmt(x.Else)
			}
		case *ast.ForStmt:
			x.Body.List = replaceReturns(x.Body.List)
		case *ast.RangeStmt:
			x.Body.List = replaceReturns(x.Body.List)
		case *ast.SwitchStmt:
			for _, cc := range x.Body.List {
				cc.(*ast.CaseClause).Body = replaceReturns(cc.(*ast.CaseClause).Body)
			}
		case *ast.TypeSwitchStmt:
			for _, cc := range x.Body.List {
				cc.(*ast.CaseClause).Body = replaceReturns(cc.(*ast.CaseClause).Body)
			}
		case *ast.SelectStmt:
			for _, cc := range x.Body.List {
				cc.(*ast.CommClause).Body = replaceReturns(cc.(*ast.CommClause).Body)
			}
		}
		return s
	}
	replaceReturns = func(list []ast.Stmt) []ast.Stmt {
		for i, s := range list {
			list[i] = visitStmt(s)
		}
		return list
	}
	stmts = replaceReturns(stmts)
	if tail != nil {
		if len(tail.Results) != 0 && len(tail.Results) != nRes {
			if _, isCall := ast.Unparen(tail.Results[0]).(*ast.CallExpr); !isCall || len(tail.Results) != 1 {
				okRet = false
			}
		}
		stmts = append(stmts, assignResults(tail)...)
	}
	if deferred != nil {
		// a return in front of the defer statement leaves without running the deferred call
		curLabel, curUsed = preLabel, &usedPreLabel
		pre = replaceReturns(pre)
	}
	if !okRet {
		return nil, false
	}
	var inner ast.Stmt
	if usedLabel {
		sw := &ast.SwitchStmt{Body: &ast.BlockStmt{List: []ast.Stmt{&ast.CaseClause{Body: stmts}}}}
		inner = &ast.LabeledStmt{Label: ast.NewIdent(label), Stmt: sw}
	} else {
		inner = &ast.BlockStmt{List: stmts}
	}
	if deferred == nil {
		out = append(out, inner)
	} else {
		// the deferred call runs behind the rest of the body, inside the scope of the declarations that precede the
		// defer statement (its operands may be declared there)
		all := append(append([]ast.Stmt{}, pre...), inner, &ast.ExprStmt{X: deferred.Call})
		if usedPreLabel {
			sw := &ast.SwitchStmt{Body: &ast.BlockStmt{List: []ast.Stmt{&ast.CaseClause{Body: all}}}}
			out = append(out, &ast.LabeledStmt{Label: ast.NewIdent(preLabel), Stmt: sw})
		} else {
			out = append(out, &ast.BlockStmt{List: all})
		}
	}
	if deferVar != "" {
		out = append(out, &ast.IfStmt{Cond: &ast.BinaryExpr{X: ast.NewIdent(deferVar), Op: token.NEQ, Y: ast.NewIdent("nil")},
			Body: &ast.BlockStmt{List: []ast.Stmt{&ast.ExprStmt{X: &ast.CallExpr{Fun: ast.NewIdent(deferVar)}}}}})
	}
	// the original statement with the call replaced by the results
	resExprs := func() []ast.Expr {
		r := make([]ast.Expr, len(resNames))
		for i, nm := range resNames {
			r[i] = ast.NewIdent(nm)
		}
		return r
	}
	switch kind {
	case "expr":
	case "assign":
		as := st.(*ast.AssignStmt)
		if len(as.Lhs) != nRes {
			return nil, false
		}
		out = append(out, &ast.AssignStmt{Lhs: as.Lhs, Tok: as.Tok, Rhs: resExprs()})
	case "return":
		out = append(out, &ast.ReturnStmt{Results: resExprs()})
	}
	// imports the callee's file has and the caller's file may lack
	if c.file != nil && c.file != n.curFile {
		if n.needImports == nil {
			n.needImports = map[*ast.File][][2]string{}
		}
		ast.Inspect(c.body, func(x ast.Node) bool {
			if id, ok := x.(*ast.Ident); ok {
				if pn, isPkg := n.info.Uses[id].(*types.PkgName); isPkg {
					name := ""
					if pn.Name() != pn.Imported().Name() {
						name = pn.Name()
					}
					n.needImports[n.curFile] = append(n.needImports[n.curFile], [2]string{name, pn.Imported().Path()})
				}
			}
			return true
		})
	}
	n.log = append(n.log, n.cur.Name.Name+" <- "+c.name)
	return out, true
}

// clone deep-copies an AST, renames the identifiers that denote objects in ren and clears all positions.
func clone(node ast.Node, ren map[types.Object]string, info *types.Info) ast.Node {
	c := &cloner{ren: ren, info: info}
	return c.value(reflect.ValueOf(node)).Interface().(ast.Node)
}

// cloneSubst is clone with identifiers replaced by (copies of) expressions.
func cloneSubst(node ast.Node, subst map[types.Object]ast.Expr, info *types.Info) ast.Node {
	c := &cloner{subst: subst, info: info}
	return c.value(reflect.ValueOf(node)).Interface().(ast.Node)
}

type cloner struct {
	ren   map[types.Object]string
	subst map[types.Object]ast.Expr
	info  *types.Info
}

var posType = reflect.TypeOf(token.NoPos)

func (c *cloner) value(v reflect.Value) reflect.Value {
	switch v.Kind() {
	case reflect.Ptr:
		if v.IsNil() {
			return v
		}
		if id, ok := v.Interface().(*ast.Ident); ok {
			name := id.Name
			if c.ren != nil {
				if o := c.info.Uses[id]; o != nil {
					if nn, ok := c.ren[o]; ok {
						name = nn
					}
				}
				if o := c.info.Defs[id]; o != nil {
					if nn, ok := c.ren[o]; ok {
						name = nn
					}
				}
			}
			return reflect.ValueOf(ast.NewIdent(name))
		}
		if _, ok := v.Interface().(*ast.Object); ok {
			return reflect.Zero(v.Type())
		}
		if _, ok := v.Interface().(*ast.Scope); ok {
			return reflect.Zero(v.Type())
		}
		n := reflect.New(v.Type().Elem())
		n.Elem().Set(c.value(v.Elem()))
		return n
	case reflect.Struct:
		n := reflect.New(v.Type()).Elem()
		for i := 0; i < v.NumField(); i++ {
			f := v.Field(i)
			if f.Type() == posType {
				continue // positions are cleared
			}
			if n.Field(i).CanSet() {
				n.Field(i).Set(c.value(f))
			}
		}
		return n
	case reflect.Slice:
		if v.IsNil() {
			return v
		}
		n := reflect.MakeSlice(v.Type(), v.Len(), v.Len())
		for i := 0; i < v.Len(); i++ {
			n.Index(i).Set(c.value(v.Index(i)))
		}
		return n
	case reflect.Interface:
		if v.IsNil() {
			return v
		}
		if c.subst != nil {
			if id, ok := v.Elem().Interface().(*ast.Ident); ok {
				if o := c.info.Uses[id]; o != nil {
					if e, ok := c.subst[o]; ok {
						cp := (&cloner{info: c.info}).value(reflect.ValueOf(e)).Interface().(ast.Expr)
						if !simpleExpr(cp) {
							cp = &ast.ParenExpr{X: cp}
						}
						n := reflect.New(v.Type()).Elem()
						n.Set(reflect.ValueOf(cp))
						return n
					}
				}
			}
		}
		n := reflect.New(v.Type()).Elem()
		n.Set(c.value(v.Elem()))
		return n
	default:
		return v
	}
}

func simpleExpr(e ast.Expr) bool {
	switch x := e.(type) {
	case *ast.Ident, *ast.BasicLit:
		return true
	case *ast.SelectorExpr:
		return simpleExpr(x.X)
	case *ast.ParenExpr, *ast.CallExpr, *ast.IndexExpr:
		return true
	}
	return false
}

// pureSimple: evaluating the expression has no effect and its value cannot change within one expression.
func pureSimple(e ast.Expr) bool {
	switch x := e.(type) {
	case *ast.Ident, *ast.BasicLit:
		return true
	case *ast.SelectorExpr:
		return pureSimple(x.X)
	case *ast.ParenExpr:
		return pureSimple(x.X)
	case *ast.StarExpr:
		return pureSimple(x.X)
	case *ast.UnaryExpr:
		return x.Op != token.ARROW && pureSimple(x.X)
	}
	return false
}

// inlineExprHelpers replaces, anywhere in the body of fd, calls of private helpers whose body is a single
// "return <expression>" by that expression (arguments substituted for the parameters). An argument that is not a plain
// variable/field/literal is only substituted when its parameter is used exactly once.
func (n *normalizer) inlineExprHelpers(fd *ast.FuncDecl) bool {
	changed := false
	astutil.Apply(fd.Body, nil, func(cur *astutil.Cursor) bool {
		call, ok := cur.Node().(*ast.CallExpr)
		if !ok || call.Ellipsis.IsValid() {
			return true
		}
		if _, isExpr := cur.Parent().(*ast.ExprStmt); isExpr {
			return true // a statement: nothing to substitute into
		}
		if _, isGo := cur.Parent().(*ast.GoStmt); isGo {
			return true
		}
		if _, isDefer := cur.Parent().(*ast.DeferStmt); isDefer {
			return true
		}
		var obj *types.Func
		var recvArg ast.Expr
		switch f := ast.Unparen(call.Fun).(type) {
		case *ast.Ident:
			obj, _ = n.info.Uses[f].(*types.Func)
		case *ast.SelectorExpr:
			sel := n.info.Selections[f]
			if sel == nil || sel.Kind() != types.MethodVal || len(sel.Index()) != 1 {
				return true
			}
			obj, _ = sel.Obj().(*types.Func)
			if obj == nil {
				return true
			}
			sig := obj.Type().(*types.Signature)
			_, wantPtr := sig.Recv().Type().(*types.Pointer)
			_, havePtr := n.info.TypeOf(f.X).Underlying().(*types.Pointer)
			switch {
			case wantPtr == havePtr:
				recvArg = f.X
			case wantPtr && !havePtr:
				recvArg = &ast.UnaryExpr{Op: token.AND, X: f.X}
			default:
				recvArg = &ast.StarExpr{X: f.X}
			}
		}
		if obj == nil || obj.Pkg() != n.pkg.Types || obj.Exported() || n.exempt[ShortName(obj)] || obj == n.curObj {
			return true
		}
		fd2 := n.decls[obj.Origin()]
		if fd2 == nil || fd2.Body == nil || len(fd2.Body.List) != 1 || n.mutated[fd2] {
			return true
		}
		ret, isRet := fd2.Body.List[0].(*ast.ReturnStmt)
		if !isRet || len(ret.Results) != 1 {
			return true
		}
		sig := obj.Type().(*types.Signature)
		if sig.Variadic() || sig.TypeParams().Len() > 0 || sig.Results().Len() != 1 {
			return true
		}
		if fd2.Recv != nil && !n.sameTypeParams(fd2) {
			return true
		}
		hasLit := false
		ast.Inspect(ret.Results[0], func(x ast.Node) bool {
			if _, ok := x.(*ast.FuncLit); ok {
				hasLit = true
			}
			return true
		})
		if hasLit || n.callsItself(fd2, obj) {
			return true
		}
		// parameters -> arguments
		subst := map[types.Object]ast.Expr{}
		uses := map[types.Object]int{}
		ast.Inspect(ret.Results[0], func(x ast.Node) bool {
			if id, ok := x.(*ast.Ident); ok {
				if o := n.info.Uses[id]; o != nil {
					uses[o]++
				}
			}
			return true
		})
		okArgs := true
		bind := func(id *ast.Ident, arg ast.Expr) {
			o := n.info.Defs[id]
			if o == nil || id.Name == "_" {
				if !pureSimple(arg) {
					okArgs = false // the argument's evaluation would be dropped
				}
				return
			}
			if !pureSimple(arg) && uses[o] != 1 {
				okArgs = false
			}
			subst[o] = arg
		}
		if fd2.Recv != nil && len(fd2.Recv.List) == 1 {
			if recvArg == nil {
				return true
			}
			if len(fd2.Recv.List[0].Names) == 1 {
				bind(fd2.Recv.List[0].Names[0], recvArg)
			} else if !pureSimple(recvArg) {
				return true
			}
		}
		ai := 0
		if fd2.Type.Params != nil {
			for _, f := range fd2.Type.Params.List {
				names := f.Names
				if len(names) == 0 {
					names = []*ast.Ident{ast.NewIdent("_")}
				}
				for _, id := range names {
					if ai >= len(call.Args) {
						return true
					}
					bind(id, call.Args[ai])
					ai++
				}
			}
		}
		if ai != len(call.Args) || !okArgs {
			return true
		}
		// hygiene: free identifiers of the expression must not be captured by locals of the caller
		c := &callee{body: &ast.BlockStmt{List: []ast.Stmt{ret}}, typ: fd2.Type, file: n.declFile[obj.Origin()]}
		if fd2.Recv != nil && len(fd2.Recv.List) == 1 {
			c.recv = fd2.Recv.List[0]
		}
		if !n.inlinableBody(c) {
			return true
		}
		repl := cloneSubst(ret.Results[0], subst, n.info).(ast.Expr)
		cur.Replace(&ast.ParenExpr{X: repl})
		if c.file != nil && c.file != n.curFile {
			if n.needImports == nil {
				n.needImports = map[*ast.File][][2]string{}
			}
			ast.Inspect(ret.Results[0], func(x ast.Node) bool {
				if id, ok := x.(*ast.Ident); ok {
					if pn, isPkg := n.info.Uses[id].(*types.PkgName); isPkg {
						name := ""
						if pn.Name() != pn.Imported().Name() {
							name = pn.Name()
						}
						n.needImports[n.curFile] = append(n.needImports[n.curFile], [2]string{name, pn.Imported().Path()})
					}
				}
				return true
			})
		}
		n.log = append(n.log, n.cur.Name.Name+" <- "+obj.Name()+" (expression)")
		changed = true
		return false
	})
	return changed
}

// Prune removes the declarations of private functions and methods that nothing in the package refers to any more
// (their calls were inlined). A method is kept when an interface of the package has a method of its name.
func Prune(pkg *packages.Package, keepFns map[string]bool) (map[string][]byte, []string, error) {
	info := pkg.TypesInfo
	used := map[types.Object]bool{}
	for id, o := range info.Uses {
		_ = id
		if f, ok := o.(*types.Func); ok {
			used[f] = true
			used[f.Origin()] = true
		}
	}
	for _, sel := range info.Selections {
		if f, ok := sel.Obj().(*types.Func); ok {
			used[f] = true
			used[f.Origin()] = true
		}
	}
	ifaceMethods := map[string]bool{}
	sc := pkg.Types.Scope()
	for _, name := range sc.Names() {
		if tn, ok := sc.Lookup(name).(*types.TypeName); ok {
			if it, ok := tn.Type().Underlying().(*types.Interface); ok {
				for i := 0; i < it.NumMethods(); i++ {
					ifaceMethods[it.Method(i).Name()] = true
				}
			}
		}
	}
	// interfaces of imported packages the types of this package may be used through (fmt.Stringer, error, heap.Interface...)
	for _, imp := range pkg.Types.Imports() {
		isc := imp.Scope()
		for _, name := range isc.Names() {
			if tn, ok := isc.Lookup(name).(*types.TypeName); ok {
				if it, ok := tn.Type().Underlying().(*types.Interface); ok {
					for i := 0; i < it.NumMethods(); i++ {
						ifaceMethods[it.Method(i).Name()] = true
					}
				}
			}
		}
	}
	overlay := map[string][]byte{}
	var removed []string
	for i, f := range pkg.Syntax {
		fname := pkg.CompiledGoFiles[i]
		if strings.HasSuffix(fname, "_test.go") || hasBuildTag(f) {
			continue
		}
		var keep []ast.Decl
		changed := false
		for _, d := range f.Decls {
			fd, ok := d.(*ast.FuncDecl)
			if ok && fd.Body != nil {
				obj, _ := info.Defs[fd.Name].(*types.Func)
				if obj != nil && !obj.Exported() && !used[obj] && !used[obj.Origin()] && obj.Name() != "init" && obj.Name() != "main" && obj.Name() != "_" && !keepFns[ShortName(obj)] {
					if fd.Recv == nil || !ifaceMethods[obj.Name()] {
						changed = true
						removed = append(removed, ShortName(obj))
						continue
					}
				}
			}
			keep = append(keep, d)
		}
		if !changed {
			continue
		}
		f.Decls = keep
		f.Comments = nil
		// imports that became unused (decided on the type information, not on the spelling of the path)
		usedPkgs := map[*types.PkgName]bool{}
		for _, d := range keep {
			ast.Inspect(d, func(x ast.Node) bool {
				if id, ok := x.(*ast.Ident); ok {
					if pn, ok := info.Uses[id].(*types.PkgName); ok {
						usedPkgs[pn] = true
					}
				}
				return true
			})
		}
		for _, imp := range f.Imports {
			var pn *types.PkgName
			if imp.Name != nil {
				pn, _ = info.Defs[imp.Name].(*types.PkgName)
			} else {
				pn, _ = info.Implicits[imp].(*types.PkgName)
			}
			if pn == nil || usedPkgs[pn] {
				continue
			}
			if imp.Name != nil && (imp.Name.Name == "_" || imp.Name.Name == ".") {
				continue
			}
			name := ""
			if imp.Name != nil {
				name = imp.Name.Name
			}
			astutil.DeleteNamedImport(pkg.Fset, f, name, strings.Trim(imp.Path.Value, "\""))
		}
		var buf bytes.Buffer
		if err := (&printer.Config{Mode: printer.UseSpaces | printer.TabIndent, Tabwidth: 8}).Fprint(&buf, pkg.Fset, f); err != nil {
			return nil, nil, err
		}
		overlay[fname] = buf.Bytes()
	}
	return overlay, removed, nil
}

// Unreferenced lists the private functions of pkg that nothing in the package refers to (they are used by tests only, or
// not at all). The normal form keeps them: only helpers whose calls were inlined away are removed.
func Unreferenced(pkg *packages.Package) map[string]bool {
	info := pkg.TypesInfo
	used := map[types.Object]bool{}
	for _, o := range info.Uses {
		if f, ok := o.(*types.Func); ok {
			used[f] = true
			used[f.Origin()] = true
		}
	}
	for _, sel := range info.Selections {
		if f, ok := sel.Obj().(*types.Func); ok {
			used[f] = true
			used[f.Origin()] = true
		}
	}
	res := map[string]bool{}
	for _, f := range pkg.Syntax {
		for _, d := range f.Decls {
			if fd, ok := d.(*ast.FuncDecl); ok {
				if obj, ok := info.Defs[fd.Name].(*types.Func); ok && !used[obj] && !used[obj.Origin()] {
					res[ShortName(obj)] = true
				}
			}
		}
	}
	return res
}
