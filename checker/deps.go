package main

import (
	"fmt"
	"go/types"
	"os"
	"sort"
	"strings"

	"golang.org/x/tools/go/ssa"

	"verif/checker/ir"
	"verif/checker/rules"
)

// externalRepoCallees lists, for one loaded program, the functions of the repository's own module that the analysed
// packages call (statically, through a method value, or as an interface method with a repository receiver) and whose
// bodies were NOT loaded: the in-repository surface a check takes on trust.
func externalRepoCallees(p *ir.Prog) map[string][]string {
	res := map[string][]string{}
	add := func(obj types.Object, from *ssa.Function) {
		if obj == nil || obj.Pkg() == nil {
			return
		}
		path := obj.Pkg().Path()
		if !strings.HasPrefix(path, ir.Module) {
			return
		}
		rel := strings.TrimPrefix(strings.TrimPrefix(path, ir.Module), "/")
		if p.HasPkg(rel) {
			return
		}
		name := rel + "." + obj.Name()
		if f, ok := obj.(*types.Func); ok {
			name = f.FullName()
		}
		res[name] = append(res[name], from.String())
	}
	for _, fn := range p.SrcFuncs {
		for _, b := range fn.Blocks {
			for _, in := range b.Instrs {
				var ops [16]*ssa.Value
				for _, op := range in.Operands(ops[:0]) {
					if op == nil || *op == nil {
						continue
					}
					switch v := (*op).(type) {
					case *ssa.Function:
						if v.Object() != nil {
							add(v.Object(), fn)
						} else if o := v.Origin(); o != nil && o.Object() != nil {
							add(o.Object(), fn)
						}
					case *ssa.Global:
						add(v.Object(), fn)
					}
				}
				if c, ok := in.(ssa.CallInstruction); ok && c.Common().IsInvoke() {
					add(c.Common().Method, fn)
				}
			}
		}
	}
	return res
}

func cmdDeps(args []string) int {
	ids := rules.IDs()
	if len(args) > 0 {
		ids = args
	}
	for _, id := range ids {
		chk := rules.Get(id)
		if chk == nil {
			fmt.Fprintf(os.Stderr, "unknown property %s\n", id)
			return 2
		}
		p, err := loadFor(chk, primary, nil)
		if err != nil {
			fmt.Fprintf(os.Stderr, "CHECK-ERROR: %v\n", err)
			return 2
		}
		m := externalRepoCallees(p)
		var names []string
		for n := range m {
			names = append(names, n)
		}
		sort.Strings(names)
		fmt.Printf("%s (%v):\n", id, chk.Pkgs)
		for _, n := range names {
			fmt.Printf("   %s   <- %d site(s), e.g. %s\n", n, len(m[n]), m[n][0])
		}
	}
	return 0
}
