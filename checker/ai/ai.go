// Package ai is a small abstract interpreter over go/ssa for finite-state components.
//
// Abstract domain: exact constants, abstract pointers (access paths into an abstract store), opaque tokens for
// values the analysis does not look into (elements, iterators, callbacks), tuples and struct values. Results of
// calls the analysis does not follow (interface methods of the environment, function values) are supplied by a
// handler, which may ask for a nondeterministic boolean; the driver enumerates every choice vector, so the set
// of abstract executions of a function from a given abstract state is explored exhaustively. Nothing is executed
// concretely: elements stay opaque and only the finite control state is computed.
package ai

import (
	"fmt"
	"go/constant"
	"go/token"
	"go/types"
	"sort"
	"strings"

	"golang.org/x/tools/go/ssa"
)

// Val is an abstract value.
type Val interface{ String() string }

// Const is an exactly known constant (Value==nil: nil / zero value of a non-basic type).
type Const struct {
	V constant.Value
}

// Ptr is an abstract address.
type Ptr struct{ Path string }

// Tok is an opaque value with an identity.
type Tok struct{ Name string }

// Tuple is a multi-value result.
type Tuple struct{ Elems []Val }

// Struct is a struct value.
type Struct struct{ Fields map[string]Val }

// Unknown is a value nothing is known about.
type Unknown struct{ Why string }

func (c Const) String() string {
	if c.V == nil {
		return "zero"
	}
	return c.V.ExactString()
}
func (p Ptr) String() string { return "&" + p.Path }
func (t Tok) String() string { return "<" + t.Name + ">" }
func (t Tuple) String() string {
	var s []string
	for _, e := range t.Elems {
		s = append(s, e.String())
	}
	return "(" + strings.Join(s, ", ") + ")"
}
func (s Struct) String() string {
	var ks []string
	for k := range s.Fields {
		ks = append(ks, k)
	}
	sort.Strings(ks)
	var out []string
	for _, k := range ks {
		out = append(out, k+":"+s.Fields[k].String())
	}
	return "{" + strings.Join(out, " ") + "}"
}
func (u Unknown) String() string { return "?" + u.Why }

// Bool makes a boolean constant.
func Bool(b bool) Val { return Const{constant.MakeBool(b)} }

// Int makes an integer constant.
func Int(i int64) Val { return Const{constant.MakeInt64(i)} }

// AsBool returns the boolean value of v if it is a known boolean constant.
func AsBool(v Val) (bool, bool) {
	c, ok := v.(Const)
	if !ok || c.V == nil || c.V.Kind() != constant.Bool {
		return false, false
	}
	return constant.BoolVal(c.V), true
}

// AsInt returns the integer value of v if it is a known integer constant.
func AsInt(v Val) (int64, bool) {
	c, ok := v.(Const)
	if !ok || c.V == nil || c.V.Kind() != constant.Int {
		return 0, false
	}
	return constant.Int64Val(c.V)
}

// Event is something observable the interpreted code did: a call into the environment.
type Event struct {
	Kind string // "invoke", "callfn", "go"
	Recv Val
	Name string
	Args []Val
	Ret  Val
}

func (e Event) String() string {
	var a []string
	for _, x := range e.Args {
		a = append(a, x.String())
	}
	r := ""
	if e.Recv != nil {
		r = e.Recv.String() + "."
	}
	ret := ""
	if e.Ret != nil {
		ret = " -> " + e.Ret.String()
	}
	return r + e.Name + "(" + strings.Join(a, ", ") + ")" + ret
}

// State is the abstract store plus the trace of environment calls.
type State struct {
	Mem    map[string]Val
	Events []Event
}

// Clone copies a state.
func (s *State) Clone() *State {
	n := &State{Mem: make(map[string]Val, len(s.Mem))}
	for k, v := range s.Mem {
		n.Mem[k] = v
	}
	n.Events = append(n.Events, s.Events...)
	return n
}

// Outcome is one abstract execution.
type Outcome struct {
	State   *State
	Ret     []Val
	Panic   bool
	Choices []bool
}

// Env supplies the results of calls the interpreter does not follow.
type Env struct {
	// Invoke handles interface method calls and calls of function values. choose() yields a fresh
	// nondeterministic boolean. Returning nil means "unknown result".
	Invoke func(st *State, recv Val, name string, args []Val, res *types.Tuple, choose func() bool) Val
	// Follow reports whether a static callee with a body should be interpreted (true) or treated as environment.
	Follow func(fn *ssa.Function) bool
	// InitMem supplies the value of a location that was never stored to (nil: Unknown / token by path).
	InitMem  func(path string, t types.Type) Val
	MaxSteps int
	// CutCycles abandons an abstract execution that comes back, within one activation of a function, to a block with
	// the abstract store and the registers of that activation unchanged: every continuation from there is also a
	// continuation of the first visit, which the enumeration of the choice vectors covers. What the handler observed
	// on the abandoned path has been observed. Needed for loops whose iteration count the environment decides.
	CutCycles bool
}

// ErrBound is returned when the interpretation exceeds its step or choice bound.
var ErrBound = fmt.Errorf("abstract interpretation exceeded its bound")

type run struct {
	env     *Env
	choices []bool
	used    int
	steps   int
	allocN  int
	err     error
	cut     bool
	callN   int
	visited map[string]bool
}

func (r *run) choose() bool {
	if r.used < len(r.choices) {
		b := r.choices[r.used]
		r.used++
		return b
	}
	r.choices = append(r.choices, false)
	r.used++
	return false
}

// Explore enumerates every abstract execution of fn from (a clone of) st with the given arguments.
func Explore(env *Env, fn *ssa.Function, args []Val, st *State) ([]Outcome, error) {
	var outs []Outcome
	prefix := []bool{}
	for iter := 0; iter < 1<<14; iter++ {
		r := &run{env: env, choices: append([]bool{}, prefix...)}
		s := st.Clone()
		ret, panicked := r.call(fn, args, s, 0)
		if r.err != nil {
			return outs, r.err
		}
		if !r.cut {
			outs = append(outs, Outcome{State: s, Ret: ret, Panic: panicked, Choices: append([]bool{}, r.choices[:r.used]...)})
		}
		// next choice vector: flip the last false among the consumed choices
		v := r.choices[:r.used]
		i := len(v) - 1
		for i >= 0 && v[i] {
			i--
		}
		if i < 0 {
			return outs, nil
		}
		prefix = append(append([]bool{}, v[:i]...), true)
	}
	return outs, ErrBound
}

func (r *run) load(st *State, path string, t types.Type) Val {
	if st, ok := t.Underlying().(*types.Struct); ok {
		_ = st
	}
	if v, ok := st.Mem[path]; ok {
		return v
	}
	if s, ok := t.Underlying().(*types.Struct); ok {
		res := Struct{Fields: map[string]Val{}}
		for i := 0; i < s.NumFields(); i++ {
			f := s.Field(i)
			res.Fields[f.Name()] = r.load(st, path+"."+f.Name(), f.Type())
		}
		return res
	}
	// a small array is a struct whose fields are named [0], [1], ... (the element path is path[i], as IndexAddr builds it)
	if a, ok := t.Underlying().(*types.Array); ok && a.Len() <= 8 {
		res := Struct{Fields: map[string]Val{}}
		for i := int64(0); i < a.Len(); i++ {
			k := fmt.Sprintf("[%d]", i)
			res.Fields[k] = r.load(st, path+k, a.Elem())
		}
		return res
	}
	if r.env.InitMem != nil {
		if v := r.env.InitMem(path, t); v != nil {
			return v
		}
	}
	return Tok{"init:" + path}
}

func (r *run) store(st *State, path string, v Val) {
	if s, ok := v.(Struct); ok {
		// clear previous field values under path
		for k := range st.Mem {
			if strings.HasPrefix(k, path+".") || strings.HasPrefix(k, path+"[") {
				delete(st.Mem, k)
			}
		}
		for k, fv := range s.Fields {
			if strings.HasPrefix(k, "[") {
				r.store(st, path+k, fv)
			} else {
				r.store(st, path+"."+k, fv)
			}
		}
		return
	}
	st.Mem[path] = v
}

func zeroOf(t types.Type) Val {
	switch u := t.Underlying().(type) {
	case *types.Basic:
		switch {
		case u.Info()&types.IsBoolean != 0:
			return Bool(false)
		case u.Info()&types.IsInteger != 0:
			return Int(0)
		case u.Info()&types.IsString != 0:
			return Const{constant.MakeString("")}
		}
	case *types.Array:
		if u.Len() <= 8 {
			res := Struct{Fields: map[string]Val{}}
			for i := int64(0); i < u.Len(); i++ {
				res.Fields[fmt.Sprintf("[%d]", i)] = zeroOf(u.Elem())
			}
			return res
		}
	case *types.Struct:
		res := Struct{Fields: map[string]Val{}}
		for i := 0; i < u.NumFields(); i++ {
			res.Fields[u.Field(i).Name()] = zeroOf(u.Field(i).Type())
		}
		return res
	}
	return Const{nil}
}

// cycleKey identifies (activation, block, incoming edge, registers, store).
func cycleKey(activation int, b, prev *ssa.BasicBlock, vals map[ssa.Value]Val, st *State) string {
	var ks []string
	for v, a := range vals {
		ks = append(ks, v.Name()+"="+a.String())
	}
	sort.Strings(ks)
	var ms []string
	for k, v := range st.Mem {
		ms = append(ms, k+"="+v.String())
	}
	sort.Strings(ms)
	pi := -1
	if prev != nil {
		pi = prev.Index
	}
	return fmt.Sprintf("%d/%d<%d|%s|%s", activation, b.Index, pi, strings.Join(ks, ";"), strings.Join(ms, ";"))
}

func fieldName(t types.Type, i int) string {
	if p, ok := t.Underlying().(*types.Pointer); ok {
		t = p.Elem()
	}
	if st, ok := t.Underlying().(*types.Struct); ok && i < st.NumFields() {
		return st.Field(i).Name()
	}
	return fmt.Sprintf("#%d", i)
}

func (r *run) call(fn *ssa.Function, args []Val, st *State, depth int) (ret []Val, panicked bool) {
	if depth > 12 || len(fn.Blocks) == 0 {
		r.err = fmt.Errorf("cannot interpret %s (depth/body)", fn.Name())
		return nil, false
	}
	max := r.env.MaxSteps
	if max == 0 {
		max = 20000
	}
	vals := map[ssa.Value]Val{}
	for i, p := range fn.Params {
		if i < len(args) {
			vals[p] = args[i]
		} else {
			vals[p] = Unknown{"param"}
		}
	}
	get := func(v ssa.Value) Val {
		switch x := v.(type) {
		case *ssa.Const:
			if x.Value == nil {
				return zeroOf(x.Type())
			}
			return Const{x.Value}
		case *ssa.Global:
			return Ptr{"g:" + x.Pkg.Pkg.Name() + "." + x.Name()}
		case *ssa.Function:
			return Tok{"func:" + x.Name()}
		case *ssa.Builtin:
			return Tok{"builtin:" + x.Name()}
		}
		if a, ok := vals[v]; ok {
			return a
		}
		return Unknown{"undef " + v.Name()}
	}
	b := fn.Blocks[0]
	var prev *ssa.BasicBlock
	r.callN++
	activation := r.callN
	for {
		if r.env.CutCycles && len(b.Preds) > 1 {
			k := cycleKey(activation, b, prev, vals, st)
			if r.visited == nil {
				r.visited = map[string]bool{}
			}
			if r.visited[k] {
				r.cut = true
				return nil, false
			}
			r.visited[k] = true
		}
		for _, in := range b.Instrs {
			r.steps++
			if r.steps > max {
				r.err = ErrBound
				return nil, false
			}
			switch x := in.(type) {
			case *ssa.DebugRef:
			case *ssa.Phi:
				for i, p := range b.Preds {
					if p == prev {
						vals[x] = get(x.Edges[i])
					}
				}
			case *ssa.Alloc:
				r.allocN++
				path := fmt.Sprintf("alloc%d:%s", r.allocN, x.Comment)
				vals[x] = Ptr{path}
				r.store(st, path, zeroOf(x.Type().(*types.Pointer).Elem()))
			case *ssa.FieldAddr:
				base := get(x.X)
				if p, ok := base.(Ptr); ok {
					vals[x] = Ptr{p.Path + "." + fieldName(x.X.Type(), x.Field)}
				} else {
					vals[x] = Unknown{"fieldaddr of " + base.String()}
				}
			case *ssa.Field:
				base := get(x.X)
				if s, ok := base.(Struct); ok {
					vals[x] = s.Fields[fieldName(x.X.Type(), x.Field)]
				} else {
					vals[x] = Unknown{"field of " + base.String()}
				}
			case *ssa.IndexAddr:
				base := get(x.X)
				idx := get(x.Index)
				if p, ok := base.(Ptr); ok {
					vals[x] = Ptr{p.Path + "[" + idx.String() + "]"}
				} else {
					vals[x] = Unknown{"indexaddr"}
				}
			case *ssa.UnOp:
				a := get(x.X)
				switch x.Op {
				case token.MUL:
					if p, ok := a.(Ptr); ok {
						vals[x] = r.load(st, p.Path, x.Type())
					} else {
						vals[x] = Unknown{"load through " + a.String()}
					}
				case token.NOT:
					if bv, ok := AsBool(a); ok {
						vals[x] = Bool(!bv)
					} else {
						vals[x] = Unknown{"not"}
					}
				case token.SUB:
					if c, ok := a.(Const); ok && c.V != nil {
						vals[x] = Const{constant.UnaryOp(token.SUB, c.V, 0)}
					} else {
						vals[x] = Unknown{"neg"}
					}
				default:
					vals[x] = Unknown{"unop"}
				}
			case *ssa.BinOp:
				vals[x] = binop(x.Op, get(x.X), get(x.Y))
			case *ssa.Store:
				a := get(x.Addr)
				if p, ok := a.(Ptr); ok {
					r.store(st, p.Path, get(x.Val))
				} else {
					r.err = fmt.Errorf("store through unknown address in %s", fn.Name())
					return nil, false
				}
			case *ssa.ChangeType:
				vals[x] = get(x.X)
			case *ssa.ChangeInterface:
				vals[x] = get(x.X)
			case *ssa.MakeInterface:
				vals[x] = get(x.X)
			case *ssa.Convert:
				vals[x] = get(x.X)
			case *ssa.Extract:
				t := get(x.Tuple)
				if tu, ok := t.(Tuple); ok && x.Index < len(tu.Elems) {
					vals[x] = tu.Elems[x.Index]
				} else {
					vals[x] = Unknown{"extract"}
				}
			case *ssa.TypeAssert:
				a := get(x.X)
				if x.CommaOk {
					ok := Unknown{"assert"}
					var okv Val = ok
					if r.env.Invoke != nil {
						if res := r.env.Invoke(st, a, "typeassert:"+types.TypeString(x.AssertedType, nil), nil, nil, r.choose); res != nil {
							okv = res
						}
					}
					if b, known := AsBool(okv); known && !b {
						// a failed assertion yields the zero value of the asserted type
						a = zeroOf(x.AssertedType)
					}
					vals[x] = Tuple{[]Val{a, okv}}
				} else {
					vals[x] = a
				}
			case *ssa.Call:
				res, p := r.doCall(x, get, st, depth)
				if r.err != nil || r.cut {
					return nil, false
				}
				if p {
					return nil, true
				}
				vals[x] = res
			case *ssa.Go:
				var as []Val
				for _, a := range x.Call.Args {
					as = append(as, get(a))
				}
				name := "go"
				if f := x.Call.StaticCallee(); f != nil {
					name = "go " + f.Name()
				}
				st.Events = append(st.Events, Event{Kind: "go", Name: name, Args: as})
			case *ssa.Jump:
			case *ssa.If:
			case *ssa.Return:
				var rs []Val
				for _, v := range x.Results {
					rs = append(rs, get(v))
				}
				return rs, false
			case *ssa.Panic:
				return nil, true
			default:
				if v, ok := in.(ssa.Value); ok {
					// values the domain does not model (slices, maps, closures ...) are opaque
					switch in.(type) {
					case *ssa.Slice, *ssa.MakeSlice, *ssa.MakeMap, *ssa.MakeChan, *ssa.MakeClosure, *ssa.Lookup, *ssa.Index, *ssa.Range, *ssa.Next, *ssa.SliceToArrayPointer:
						vals[v] = Unknown{fmt.Sprintf("%T", in)}
						continue
					}
				}
				r.err = fmt.Errorf("unsupported instruction %T in %s", in, fn.Name())
				return nil, false
			}
		}
		last := b.Instrs[len(b.Instrs)-1]
		switch t := last.(type) {
		case *ssa.Jump:
			prev, b = b, b.Succs[0]
		case *ssa.If:
			c := get(t.Cond)
			bv, ok := AsBool(c)
			if !ok {
				bv = r.choose()
			}
			prev = b
			if bv {
				b = b.Succs[0]
			} else {
				b = b.Succs[1]
			}
		default:
			r.err = fmt.Errorf("block without terminator in %s", fn.Name())
			return nil, false
		}
	}
}

func (r *run) doCall(x *ssa.Call, get func(ssa.Value) Val, st *State, depth int) (Val, bool) {
	cc := x.Common()
	var args []Val
	for _, a := range cc.Args {
		args = append(args, get(a))
	}
	if cc.IsInvoke() {
		recv := get(cc.Value)
		var res Val
		if r.env.Invoke != nil {
			res = r.env.Invoke(st, recv, cc.Method.Name(), args, cc.Signature().Results(), r.choose)
		}
		if res == nil {
			res = Unknown{"invoke " + cc.Method.Name()}
		}
		st.Events = append(st.Events, Event{Kind: "invoke", Recv: recv, Name: cc.Method.Name(), Args: args, Ret: res})
		return res, false
	}
	if bi, ok := cc.Value.(*ssa.Builtin); ok {
		if bi.Name() == "len" && len(args) == 1 {
			switch a := args[0].(type) {
			case Ptr:
				return Tok{"len:" + a.Path}, false
			case Tok:
				return Tok{"len:" + a.Name}, false
			}
		}
		return Unknown{"builtin " + bi.Name()}, false
	}
	if fn := cc.StaticCallee(); fn != nil {
		if o := fn.Origin(); o != nil {
			fn = o
		}
		if len(fn.Blocks) > 0 && (r.env.Follow == nil || r.env.Follow(fn)) {
			rs, p := r.call(fn, args, st, depth+1)
			if p || r.err != nil || r.cut {
				return nil, p
			}
			switch len(rs) {
			case 0:
				return Tuple{}, false
			case 1:
				return rs[0], false
			}
			return Tuple{rs}, false
		}
		var res Val
		if r.env.Invoke != nil {
			res = r.env.Invoke(st, nil, fn.String(), args, fn.Signature.Results(), r.choose)
		}
		if res == nil {
			res = Unknown{"call " + fn.Name()}
		}
		st.Events = append(st.Events, Event{Kind: "call", Name: fn.String(), Args: args, Ret: res})
		return res, false
	}
	// call of a function value
	fv := get(cc.Value)
	var res Val
	if r.env.Invoke != nil {
		res = r.env.Invoke(st, fv, "call", args, cc.Signature().Results(), r.choose)
	}
	if res == nil {
		res = Unknown{"callfn"}
	}
	st.Events = append(st.Events, Event{Kind: "callfn", Recv: fv, Name: "call", Args: args, Ret: res})
	return res, false
}

func binop(op token.Token, a, b Val) Val {
	ca, oka := a.(Const)
	cb, okb := b.(Const)
	if oka && okb && ca.V != nil && cb.V != nil {
		switch op {
		case token.EQL, token.NEQ, token.LSS, token.LEQ, token.GTR, token.GEQ:
			return Bool(constant.Compare(ca.V, op, cb.V))
		case token.ADD, token.SUB, token.MUL, token.AND, token.OR, token.XOR, token.REM, token.AND_NOT:
			return Const{constant.BinaryOp(ca.V, op, cb.V)}
		case token.QUO:
			if constant.Sign(cb.V) != 0 {
				return Const{constant.BinaryOp(ca.V, token.QUO_ASSIGN, cb.V)}
			}
		case token.LAND:
			return Bool(constant.BoolVal(ca.V) && constant.BoolVal(cb.V))
		case token.LOR:
			return Bool(constant.BoolVal(ca.V) || constant.BoolVal(cb.V))
		}
	}
	// identity comparisons of tokens / pointers / nil
	if op == token.EQL || op == token.NEQ {
		eq, known := sameVal(a, b)
		if known {
			if op == token.NEQ {
				eq = !eq
			}
			return Bool(eq)
		}
	}
	// arithmetic on symbolic operands yields a symbolic term: equal terms are equal values
	switch op {
	case token.ADD, token.SUB, token.MUL:
		if symbolic(a) && symbolic(b) {
			return Tok{"(" + a.String() + op.String() + b.String() + ")"}
		}
	}
	return Unknown{"binop " + op.String()}
}

func symbolic(v Val) bool {
	switch x := v.(type) {
	case Tok:
		return true
	case Const:
		return x.V != nil
	}
	return false
}

func sameVal(a, b Val) (eq, known bool) {
	switch x := a.(type) {
	case Tok:
		if y, ok := b.(Tok); ok {
			return x.Name == y.Name, x.Name == y.Name // distinct tokens may or may not be equal
		}
		if y, ok := b.(Const); ok && y.V == nil {
			// tokens handed out by the environment are non-nil; only never-initialised locations may hold nil
			if strings.HasPrefix(x.Name, "init:") {
				return false, false
			}
			return false, true
		}
	case Ptr:
		if y, ok := b.(Ptr); ok {
			return x.Path == y.Path, true
		}
		if y, ok := b.(Const); ok && y.V == nil {
			return false, true
		}
	case Const:
		if x.V == nil {
			if y, ok := b.(Const); ok && y.V == nil {
				return true, true
			}
			if _, ok := b.(Ptr); ok {
				return false, true
			}
			if y, ok := b.(Tok); ok && !strings.HasPrefix(y.Name, "init:") {
				return false, true
			}
		}
	}
	return false, false
}
