// verifcheck decides the structural clauses of the golibs properties by static analysis.
//
//	verifcheck check -prop C10 [-tier quick|thorough]
//	verifcheck selftest [-prop C10]        run the overlay-mutant catalogue, fail on an unkilled mutant
//	verifcheck replay <violation.json>     re-evaluate one obligation on the current tree
//	verifcheck list
package main

import (
	"encoding/json"
	"flag"
	"fmt"
	"go/ast"
	"go/types"
	"os"
	"os/exec"
	"path/filepath"
	"runtime"
	"runtime/debug"
	"sort"
	"strconv"
	"strings"
	"sync"
	"time"

	"verif/checker/ir"
	"verif/checker/norm"
	"verif/checker/report"
	"verif/checker/rules"
)

var (
	repoDir  = envOr("VERIF_REPO", "/repo")
	verifDir = envOr("VERIF_DIR", "/verif")
	// evidenceDir can be redirected for trial runs against scratch trees, so that the committed evidence
	// always stems from runs against /repo itself
	evidenceDir = envOr("VERIF_EVIDENCE_DIR", filepath.Join(envOr("VERIF_DIR", "/verif"), "evidence"))
)

func envOr(k, d string) string {
	if v := os.Getenv(k); v != "" {
		return v
	}
	return d
}

type config struct{ goos, goarch string }

func (c config) String() string { return c.goos + "/" + c.goarch }

var primary = config{"linux", "amd64"}
var matrix = []config{{"linux", "amd64"}, {"linux", "386"}, {"linux", "arm64"}, {"darwin", "arm64"}, {"windows", "amd64"}}

func main() {
	if len(os.Args) < 2 {
		usage()
	}
	switch os.Args[1] {
	case "check":
		os.Exit(cmdCheck(os.Args[2:]))
	case "deps":
		os.Exit(cmdDeps(os.Args[2:]))
	case "inventory":
		os.Exit(cmdInventory())
	case "normal":
		os.Exit(cmdNormal(os.Args[2:]))
	case "selftest":
		os.Exit(cmdSelftest(os.Args[2:]))
	case "replay":
		os.Exit(cmdReplay(os.Args[2:]))
	case "manifest":
		os.Exit(cmdManifest())
	case "list":
		for _, id := range rules.IDs() {
			c := rules.Get(id)
			fmt.Printf("%s\t%s\t%v\n", id, c.Title, c.Pkgs)
		}
	default:
		usage()
	}
}

func usage() {
	fmt.Fprintln(os.Stderr, "usage: verifcheck check -prop <id> [-tier quick|thorough] | selftest [-prop id] | replay <file> | list")
	os.Exit(2)
}

func patterns(chk *rules.Check) []string {
	var ps []string
	for _, p := range chk.Pkgs {
		ps = append(ps, "./"+p)
	}
	return ps
}

func loadFor(chk *rules.Check, cfg config, overlay map[string][]byte) (*ir.Prog, error) {
	return ir.Load(ir.Config{Dir: repoDir, Patterns: patterns(chk), GOOS: cfg.goos, GOARCH: cfg.goarch, Overlay: overlay})
}

// openFindingKeys returns the obligation keys listed as open findings.
func openFindingKeys() map[string]bool {
	findings, _ := report.LoadFindings(filepath.Join(verifDir, "KNOWN_FINDINGS.txt"))
	open := map[string]bool{}
	for _, f := range findings {
		if f.Open {
			open[f.Key] = true
		}
	}
	return open
}

// clean: no unlisted violation, no undecided obligation, no check error.
func clean(res *report.Result, open map[string]bool) bool {
	if res == nil || len(res.Errors) > 0 {
		return false
	}
	for _, o := range res.Obligations {
		if o.Status == report.Undecided || (o.Status == report.Violated && !open[o.Key]) {
			return false
		}
	}
	return true
}

// normalForm computes the helper-inlined normal form (package norm) of the packages chk reads, on top of the overlay
// base. exempt names the functions that stay calls (the roles the rules resolved on the original program).
func normalForm(chk *rules.Check, cfg config, base map[string][]byte, exempt map[string]bool) (map[string][]byte, []string, error) {
	overlay := map[string][]byte{}
	for k, v := range base {
		overlay[k] = v
	}
	var log []string
	counter := 0
	changedAny := false
	keep := map[string]bool{}
	for round := 0; round < 8; round++ {
		p, err := loadFor(chk, cfg, overlay)
		if err != nil {
			return nil, log, err
		}
		if round == 0 {
			for _, pk := range p.Pkgs {
				for k := range norm.Unreferenced(pk) {
					keep[k] = true
				}
			}
		}
		changed := false
		for _, pk := range p.Pkgs {
			ours := false
			for _, rel := range chk.Pkgs {
				if pk.PkgPath == ir.Module+"/"+rel {
					ours = true
				}
			}
			if !ours {
				continue
			}
			r, err := norm.Round(pk, exempt, &counter)
			if err != nil {
				return nil, log, err
			}
			for f, b := range r.Overlay {
				overlay[f] = b
				changed = true
				if dd := os.Getenv("VERIF_NF_DEBUG_DIR"); dd != "" {
					rel, _ := filepath.Rel(repoDir, f)
					os.MkdirAll(filepath.Dir(filepath.Join(dd, rel)), 0o755)
					os.WriteFile(filepath.Join(dd, rel), b, 0o644)
				}
			}
			log = append(log, r.Inlined...)
		}
		if !changed {
			break
		}
		changedAny = true
	}
	if !changedAny {
		return nil, log, nil
	}
	// helpers nothing refers to any more are dead code: remove them, so that no rule looks at a body that is never run
	for round := 0; round < 4; round++ {
		p, err := loadFor(chk, cfg, overlay)
		if err != nil {
			return nil, log, err
		}
		changed := false
		for _, pk := range p.Pkgs {
			ours := false
			for _, rel := range chk.Pkgs {
				if pk.PkgPath == ir.Module+"/"+rel {
					ours = true
				}
			}
			if !ours {
				continue
			}
			ov, removed, err := norm.Prune(pk, keep)
			if err != nil {
				return nil, log, err
			}
			for f, b := range ov {
				overlay[f] = b
				changed = true
			}
			for _, r := range removed {
				log = append(log, "removed unused "+r)
			}
		}
		if !changed {
			break
		}
	}
	return overlay, log, nil
}

// decide runs the check of chk on the tree (with overlay). When the verdict on the program as written is not clean,
// the helper-inlined normal form of the same program is checked as well: inlining preserves behaviour, so a clean
// verdict on the normal form (with every rule still matching at least its floor of constructs) is a verdict about the
// program as written. A violation is reported only if it is found on both forms; it is reported with the positions of
// the program as written.
func decide(chk *rules.Check, cfg config, overlay map[string][]byte) (res *report.Result, note string, err error) {
	open := openFindingKeys()
	p, err := loadFor(chk, cfg, overlay)
	if err != nil {
		return nil, "", err
	}
	res = rules.RunCheck(chk, p, cfg.String())
	exempt := rules.ClaimedFns(p.SSA)
	rules.ForgetClaims(p.SSA)
	if clean(res, open) || os.Getenv("VERIF_NO_NORMAL_FORM") != "" {
		return res, "", nil
	}
	// helpers the rules were written against (inventory of the tree at the time) stay calls as well: the rules know them
	for k := range baselineHelpers() {
		exempt[k] = true
	}
	nf, log, nerr := normalForm(chk, cfg, overlay, exempt)
	if nerr != nil || nf == nil {
		return res, "", nil // the normal form does not exist / does not type-check: the verdict on the program as written stands
	}
	p2, err2 := loadFor(chk, cfg, nf)
	if err2 != nil {
		return res, "", nil
	}
	var res2 *report.Result
	func() {
		defer func() {
			if r := recover(); r != nil {
				res2 = nil
			}
		}()
		res2 = rules.RunCheck(chk, p2, cfg.String())
	}()
	rules.ForgetClaims(p2.SSA)
	if res2 != nil && clean(res2, open) {
		sort.Strings(log)
		return res2, fmt.Sprintf("decided on the helper-inlined normal form (%d call(s) inlined: %s)", len(log), strings.Join(uniq(log), "; ")), nil
	}
	// neither form is clean. The alarm is raised either way; for the diagnosis prefer the form that NAMES a violated
	// obligation over one that only lost its anchors (role unresolved, floor missed, obligation undecided)
	if res2 != nil && namedViolations(res2, open) > 0 && namedViolations(res, open) == 0 {
		sort.Strings(log)
		return res2, fmt.Sprintf("not established as written (%s); violation named on the helper-inlined normal form (%d call(s) inlined)", strings.Join(res.Errors, "; "), len(log)), nil
	}
	return res, "", nil
}

// namedViolations counts the violated obligations of r that are not listed as open findings.
func namedViolations(r *report.Result, open map[string]bool) int {
	n := 0
	for _, o := range r.Obligations {
		if o.Status == report.Violated && !open[o.Key] {
			n++
		}
	}
	return n
}

var (
	baselineOnce sync.Once
	baselineSet  map[string]bool
)

// baselineHelpers reads /verif/baseline_helpers.txt: the short names of the private functions the repository had when
// the rules were written. The file only steers which calls the normal form inlines (any choice is behaviour
// preserving); it is never used for a verdict.
func baselineHelpers() map[string]bool {
	baselineOnce.Do(func() {
		baselineSet = map[string]bool{}
		b, err := os.ReadFile(filepath.Join(verifDir, "baseline_helpers.txt"))
		if err != nil {
			return
		}
		for _, l := range strings.Split(string(b), "\n") {
			l = strings.TrimSpace(l)
			if l != "" && !strings.HasPrefix(l, "#") {
				baselineSet[l] = true
			}
		}
	})
	return baselineSet
}

// cmdInventory prints the private functions of the repository (short names), for baseline_helpers.txt.
func cmdInventory() int {
	seen := map[string]bool{}
	for _, id := range rules.IDs() {
		chk := rules.Get(id)
		p, err := loadFor(chk, primary, nil)
		if err != nil {
			fmt.Fprintln(os.Stderr, err)
			return 2
		}
		for _, pk := range p.Pkgs {
			if !strings.HasPrefix(pk.PkgPath, ir.Module) {
				continue
			}
			for _, f := range pk.Syntax {
				for _, d := range f.Decls {
					if fd, ok := d.(*ast.FuncDecl); ok {
						if obj, ok := pk.TypesInfo.Defs[fd.Name].(*types.Func); ok && !obj.Exported() {
							seen[norm.ShortName(obj)] = true
						}
					}
				}
			}
		}
	}
	var names []string
	for k := range seen {
		names = append(names, k)
	}
	sort.Strings(names)
	fmt.Println("# private functions of the repository when the rules were written (see DESIGN.md, normal form)")
	for _, n := range names {
		fmt.Println(n)
	}
	return 0
}

func uniq(l []string) []string {
	var out []string
	seen := map[string]bool{}
	for _, x := range l {
		if !seen[x] {
			seen[x] = true
			out = append(out, x)
		}
	}
	return out
}

// cmdNormal is a debugging aid: it writes the helper-inlined normal form of the packages of a property to a directory
// and prints the verdict of the check on it.
func cmdNormal(args []string) int {
	fs := flag.NewFlagSet("normal", flag.ExitOnError)
	prop := fs.String("prop", "", "property id")
	out := fs.String("out", "", "directory to write the normalised files to")
	patchDir := fs.String("patch", "", "optional directory with a patch.diff to apply first (overlay)")
	fs.Parse(args)
	chk := rules.Get(*prop)
	if chk == nil {
		return 2
	}
	var overlay map[string][]byte
	if *patchDir != "" {
		var err error
		overlay, _, err = patchOverlay(*patchDir)
		if err != nil {
			fmt.Println(err)
			return 2
		}
	}
	p, err := loadFor(chk, primary, overlay)
	if err != nil {
		fmt.Println(err)
		return 2
	}
	res := rules.RunCheck(chk, p, primary.String())
	exempt := rules.ClaimedFns(p.SSA)
	var ex []string
	for k := range exempt {
		ex = append(ex, k)
	}
	sort.Strings(ex)
	fmt.Println("as written: errors:", res.Errors)
	for _, o := range res.Obligations {
		if o.Status != report.Discharged {
			fmt.Printf("  %s %s @ %s\n", o.Status, o.Key, o.Pos)
		}
	}
	fmt.Println("role functions (not inlined):", strings.Join(ex, ", "))
	for k := range baselineHelpers() {
		exempt[k] = true
	}
	nf, log, err := normalForm(chk, primary, overlay, exempt)
	fmt.Println("inlined:", strings.Join(uniq(log), "; "), "err:", err)
	if nf == nil {
		fmt.Println("no normal form")
		return 0
	}
	if *out != "" {
		for f, b := range nf {
			rel, _ := filepath.Rel(repoDir, f)
			os.MkdirAll(filepath.Dir(filepath.Join(*out, rel)), 0o755)
			os.WriteFile(filepath.Join(*out, rel), b, 0o644)
		}
	}
	p2, err := loadFor(chk, primary, nf)
	if err != nil {
		fmt.Println("normal form does not load:", err)
		return 2
	}
	res2 := rules.RunCheck(chk, p2, primary.String())
	if dump := os.Getenv("VERIF_DUMP_FN"); dump != "" {
		for _, fn := range p2.SrcFuncs {
			if ir.FnName(fn) == dump {
				fn.WriteTo(os.Stdout)
				for _, b := range fn.Blocks {
					var fs []string
					for _, f := range ir.Facts(b) {
						fs = append(fs, fmt.Sprintf("%s=%t", f.Cond.Name(), f.True))
					}
					fmt.Printf("facts[%d]: %s\n", b.Index, strings.Join(fs, " "))
				}
			}
		}
	}
	fmt.Println("normal form: errors:", res2.Errors)
	for _, o := range res2.Obligations {
		if o.Status != report.Discharged {
			fmt.Printf("  %s %s @ %s: %s\n", o.Status, o.Key, o.Pos, o.Detail)
		}
	}
	return 0
}

func cmdCheck(args []string) int {
	fs := flag.NewFlagSet("check", flag.ExitOnError)
	prop := fs.String("prop", "", "property id")
	tier := fs.String("tier", envOr("VERIF_TIER", "quick"), "quick or thorough")
	verbose := fs.Bool("v", false, "print every obligation")
	fs.Parse(args)
	chk := rules.Get(*prop)
	if chk == nil {
		fmt.Fprintf(os.Stderr, "CHECK-ERROR: unknown property %q\n", *prop)
		return 2
	}
	if *tier != "quick" && *tier != "thorough" {
		fmt.Fprintf(os.Stderr, "CHECK-ERROR: unknown tier %q\n", *tier)
		return 2
	}
	seed, _ := strconv.ParseInt(os.Getenv("VERIF_SEED"), 10, 64)
	start := time.Now()
	evPath := filepath.Join(evidenceDir, chk.ID+".json")
	os.Remove(evPath)

	cfgs := []config{primary}
	if *tier == "thorough" {
		cfgs = matrix
	}
	results := make([]*report.Result, len(cfgs))
	notes := make([]string, len(cfgs))
	errs := make([]error, len(cfgs))
	var wg sync.WaitGroup
	sem := make(chan struct{}, 3)
	for i, cfg := range cfgs {
		wg.Add(1)
		go func(i int, cfg config) {
			defer wg.Done()
			sem <- struct{}{}
			defer func() { <-sem }()
			defer func() {
				if r := recover(); r != nil {
					errs[i] = fmt.Errorf("checker panic on %s: %v", cfg, r)
					fmt.Fprintf(os.Stderr, "%s\n", debug.Stack())
				}
			}()
			r, note, err := decide(chk, cfg, nil)
			if err != nil {
				errs[i] = fmt.Errorf("%s: %w", cfg, err)
				return
			}
			results[i] = r
			notes[i] = note
		}(i, cfg)
	}
	wg.Wait()

	// checkErrs: the tool itself failed (load error, panic). anchorErrs: the tool ran, but a rule could not be applied
	// (a role did not resolve, a rule matched fewer constructs than its floor, an obligation is undecided) - the
	// property is not established on this tree.
	var checkErrs, anchorErrs []string
	for i, e := range errs {
		if e != nil {
			checkErrs = append(checkErrs, e.Error())
		}
		if results[i] != nil {
			for _, m := range results[i].Errors {
				anchorErrs = append(anchorErrs, cfgs[i].String()+": "+m)
			}
		}
	}

	findings, ferr := report.LoadFindings(filepath.Join(verifDir, "KNOWN_FINDINGS.txt"))
	if ferr != nil {
		checkErrs = append(checkErrs, ferr.Error())
	}
	openKeys := map[string]report.Finding{}
	for _, f := range findings {
		if f.Open && f.Property == chk.ID {
			openKeys[f.Key] = f
		}
	}

	// merge obligations over configurations: keyed, worst status wins
	type merged struct {
		*report.Obligation
		cfgs []string
	}
	byKey := map[string]*merged{}
	var keys []string
	rank := map[report.Status]int{report.Discharged: 0, report.Undecided: 1, report.Violated: 2}
	for _, r := range results {
		if r == nil {
			continue
		}
		for _, o := range r.Obligations {
			m := byKey[o.Key]
			if m == nil {
				cp := *o
				m = &merged{Obligation: &cp}
				byKey[o.Key] = m
				keys = append(keys, o.Key)
			} else if rank[o.Status] > rank[m.Status] {
				cp := *o
				m.Obligation = &cp
			}
			m.cfgs = append(m.cfgs, r.Config)
		}
	}
	sort.Strings(keys)

	var violations, known, undecided, discharged int
	var samples []any
	var vioLines []string
	seenKnown := map[string]bool{}
	for _, k := range keys {
		m := byKey[k]
		if *verbose {
			fmt.Printf("  %-10s %s @ %s %s\n", m.Status, m.Key, m.Pos, m.Detail)
		}
		entry := map[string]any{"key": m.Key, "status": string(m.Status), "pos": m.Pos, "configs": len(m.cfgs)}
		if m.Detail != "" {
			entry["detail"] = m.Detail
		}
		switch m.Status {
		case report.Discharged:
			discharged++
		case report.Undecided:
			undecided++
			anchorErrs = append(anchorErrs, fmt.Sprintf("undecided obligation %s @ %s: %s", m.Key, m.Pos, m.Detail))
		case report.Violated:
			if f, ok := openKeys[m.Key]; ok {
				known++
				seenKnown[m.Key] = true
				entry["known_finding"] = true
				fmt.Printf("KNOWN-FINDING: property=%s %s [%s @ %s]\n", chk.ID, f.Text, m.Key, m.Pos)
			} else {
				violations++
				rp := filepath.Join(evidenceDir, "violations", chk.ID+"-"+report.KeyHash(m.Key)+".json")
				report.WriteJSON(rp, map[string]any{"property": chk.ID, "key": m.Key, "rule": m.Rule, "pos": m.Pos, "detail": m.Detail, "config": m.Config,
					"replay": "verifcheck replay " + rp})
				vioLines = append(vioLines, fmt.Sprintf("VIOLATION property=%s replay=%s", chk.ID, rp))
				fmt.Printf("violated: %s @ %s: %s\n", m.Key, m.Pos, m.Detail)
			}
		}
		samples = append(samples, entry)
	}

	// evidence
	roles := map[string]string{}
	var functions, pkgs []string
	floors := map[string]any{}
	for _, r := range results {
		if r == nil {
			continue
		}
		if r.Config == primary.String() || len(roles) == 0 {
			for k, v := range r.Roles {
				roles[k] = v
			}
			functions = r.Functions
			pkgs = r.Packages
			for k, v := range r.Floors {
				floors[k] = map[string]int{"floor": v[0], "matched": v[1]}
			}
		}
	}
	var cfgNames []string
	for _, c := range cfgs {
		cfgNames = append(cfgNames, c.String())
	}
	cov := map[string]any{
		"explanation":        chk.Explanation + " NOT DECIDED: " + chk.NotDecided,
		"technique":          chk.Technique,
		"obligations":        len(keys),
		"discharged":         discharged,
		"violated":           violations,
		"known_findings":     known,
		"undecided":          undecided,
		"samples":            samples,
		"roles":              roles,
		"functions_analysed": functions,
		"packages_loaded":    pkgs,
		"floors":             floors,
		"configurations":     cfgNames,
		"checker_cmd":        "bin/verifcheck check -prop " + chk.ID + " -tier " + *tier,
		"trusted_base":       append([]string{"go/types, go/ssa, go/packages (golang.org/x/tools v0.29.0)", "Go memory model: sync.Mutex critical sections, channel close wakes all receivers"}, chk.Trusted...),
		"check_errors":       append(append([]string{}, checkErrs...), anchorErrs...),
		"normal_form":        notes,
		"exhaustive":         true,
		"rule":               "every rule enumerates all of its instances in the loaded packages; an obligation is one rule applied to one construct (function, call site, exit, table entry); nothing is sampled",
	}
	if *tier == "thorough" {
		cov["mutants"] = runMutants(chk.ID, false)
		cov["seeded_changes"] = runSeeds(chk.ID, false)
		cov["benign_refactorings"] = runBenign(chk.ID, false)
	}
	ev := report.Evidence{PropertyID: chk.ID, Tier: *tier, Seed: seed, Level: "other", Coverage: cov,
		Assumptions: append([]string{"the claim is the named structural clause only (necessary condition), not the behaviour over all inputs/schedules"}, chk.Trusted...),
		WallS:       time.Since(start).Seconds(), Violations: violations}
	if err := report.WriteJSON(evPath, ev); err != nil {
		checkErrs = append(checkErrs, "cannot write evidence: "+err.Error())
	}

	fmt.Printf("%s %s: %d obligations, %d discharged, %d violated, %d known finding(s), %d undecided, %d configuration(s), %.1fs\n",
		chk.ID, *tier, len(keys), discharged, violations, known, undecided, len(cfgs), time.Since(start).Seconds())
	for _, l := range vioLines {
		fmt.Println(l)
	}
	if len(anchorErrs) > 0 {
		// not established: reported through the same interface as a violation (exit 1 + VIOLATION line) - the property
		// did not hold on everything explored - with a replay file that says which rule lost its anchor
		sort.Strings(anchorErrs)
		rp := filepath.Join(evidenceDir, "violations", chk.ID+"-not-established-"+report.KeyHash(strings.Join(anchorErrs, "|"))+".json")
		report.WriteJSON(rp, map[string]any{"property": chk.ID, "kind": "not-established", "what": anchorErrs,
			"meaning": "a rule of this check could not be applied to this tree (role unresolved, rule below its floor, obligation undecided): the structural clause it decides is not established",
			"replay":  "verifcheck check -prop " + chk.ID})
		for _, e := range anchorErrs {
			fmt.Printf("not-established: %s\n", e)
			fmt.Fprintf(os.Stderr, "CHECK-ERROR: %s\n", e)
		}
		fmt.Printf("VIOLATION property=%s replay=%s\n", chk.ID, rp)
	}
	if len(checkErrs) > 0 {
		for _, e := range checkErrs {
			fmt.Fprintf(os.Stderr, "CHECK-ERROR: %s\n", e)
		}
	}
	if violations > 0 || len(anchorErrs) > 0 {
		return 1
	}
	if len(checkErrs) > 0 {
		return 2
	}
	return 0
}

// ---------------------------------------------------------------------------
// mutants

// Mutant is one source mutation of the real tree, presented through an overlay.
type Mutant struct {
	ID       string `json:"id"`
	Property string `json:"property"`
	Expect   string `json:"expect"` // rule id that must report ("" for benign: nothing may report)
	File     string `json:"file"`   // repository-relative
	Old      string `json:"old"`
	New      string `json:"new"`
	Benign   bool   `json:"benign,omitempty"`
	Note     string `json:"note,omitempty"`
	Edits    []Edit `json:"edits,omitempty"` // additional edits (possibly in other files)
}

// Edit is one exact-substring replacement.
type Edit struct {
	File string `json:"file"`
	Old  string `json:"old"`
	New  string `json:"new"`
}

func loadMutants() ([]Mutant, error) {
	files, _ := filepath.Glob(filepath.Join(verifDir, "mutants", "*.json"))
	sort.Strings(files)
	var all []Mutant
	for _, f := range files {
		b, err := os.ReadFile(f)
		if err != nil {
			return nil, err
		}
		var ms []Mutant
		if err := json.Unmarshal(b, &ms); err != nil {
			return nil, fmt.Errorf("%s: %w", f, err)
		}
		all = append(all, ms...)
	}
	return all, nil
}

type mutantOutcome struct {
	ID      string `json:"id"`
	Expect  string `json:"expect"`
	Outcome string `json:"outcome"` // killed | survived | not-applicable | silent(benign ok) | false-alarm | error
	Detail  string `json:"detail,omitempty"`
}

func runMutant(m Mutant) mutantOutcome {
	out := mutantOutcome{ID: m.ID, Expect: m.Expect}
	chk := rules.Get(m.Property)
	if chk == nil {
		out.Outcome, out.Detail = "error", "unknown property"
		return out
	}
	overlay := map[string][]byte{}
	edits := append([]Edit{{m.File, m.Old, m.New}}, m.Edits...)
	for _, e := range edits {
		abs := filepath.Join(repoDir, e.File)
		src, ok := overlay[abs]
		if !ok {
			b, err := os.ReadFile(abs)
			if err != nil {
				out.Outcome, out.Detail = "not-applicable", err.Error()
				return out
			}
			src = b
		}
		if n := strings.Count(string(src), e.Old); n != 1 {
			out.Outcome, out.Detail = "not-applicable", fmt.Sprintf("anchor text occurs %d times in %s", n, e.File)
			return out
		}
		overlay[abs] = []byte(strings.Replace(string(src), e.Old, e.New, 1))
	}
	var res *report.Result
	func() {
		defer func() {
			if r := recover(); r != nil {
				out.Outcome, out.Detail = "error", fmt.Sprintf("panic: %v", r)
			}
		}()
		var err error
		res, _, err = decide(chk, primary, overlay)
		if err != nil {
			out.Outcome, out.Detail = "error", "mutant does not load: "+err.Error()
			res = nil
		}
	}()
	if res == nil {
		return out
	}
	findings, _ := report.LoadFindings(filepath.Join(verifDir, "KNOWN_FINDINGS.txt"))
	open := map[string]bool{}
	for _, f := range findings {
		if f.Open {
			open[f.Key] = true
		}
	}
	var hits, others []string
	for _, o := range res.Obligations {
		if o.Status == report.Violated && !open[o.Key] {
			if m.Expect != "" && o.Rule == m.Expect {
				hits = append(hits, o.Key+" @ "+o.Pos)
			} else {
				others = append(others, o.Key)
			}
		}
	}
	var undec []string
	for _, o := range res.Obligations {
		if o.Status == report.Undecided {
			undec = append(undec, o.Key)
		}
	}
	switch {
	case m.Benign:
		if len(hits)+len(others) > 0 {
			out.Outcome, out.Detail = "false-alarm", strings.Join(append(hits, others...), "; ")
		} else if len(res.Errors)+len(undec) > 0 {
			out.Outcome, out.Detail = "check-error", strings.Join(append(res.Errors, undec...), "; ")
		} else {
			out.Outcome = "silent"
		}
	case len(hits) > 0:
		out.Outcome, out.Detail = "killed", hits[0]
	case len(others) > 0:
		out.Outcome, out.Detail = "killed-by-other-rule", strings.Join(others, "; ")
	default:
		out.Outcome = "survived"
		if len(res.Errors)+len(undec) > 0 {
			out.Outcome = "check-error"
			out.Detail = strings.Join(append(res.Errors, undec...), "; ")
		}
	}
	return out
}

func runMutants(prop string, verbose bool) []mutantOutcome {
	ms, err := loadMutants()
	if err != nil {
		return []mutantOutcome{{ID: "catalogue", Outcome: "error", Detail: err.Error()}}
	}
	var sel []Mutant
	for _, m := range ms {
		if prop == "" || m.Property == prop {
			sel = append(sel, m)
		}
	}
	outs := make([]mutantOutcome, len(sel))
	var wg sync.WaitGroup
	par := runtime.NumCPU() / 2
	if par < 1 {
		par = 1
	}
	if par > 8 {
		par = 8
	}
	sem := make(chan struct{}, par)
	for i, m := range sel {
		wg.Add(1)
		go func(i int, m Mutant) {
			defer wg.Done()
			sem <- struct{}{}
			defer func() { <-sem }()
			outs[i] = runMutant(m)
			if verbose {
				fmt.Printf("  mutant %-40s expect=%-8s %s %s\n", m.ID, m.Expect, outs[i].Outcome, outs[i].Detail)
			}
		}(i, m)
	}
	wg.Wait()
	return outs
}

func cmdSelftest(args []string) int {
	fs := flag.NewFlagSet("selftest", flag.ExitOnError)
	prop := fs.String("prop", "", "restrict to one property")
	fs.Parse(args)
	outs := runMutants(*prop, true)
	for _, so := range runSeeds(*prop, true) {
		o := mutantOutcome{ID: "seed " + so.ID, Outcome: so.Outcome, Detail: so.Detail}
		if o.Outcome == "detected" {
			o.Outcome = "killed"
		}
		outs = append(outs, o)
	}
	for _, bo := range runBenign(*prop, true) {
		outs = append(outs, mutantOutcome{ID: "benign " + bo.ID, Outcome: bo.Outcome, Detail: bo.Detail})
	}
	bad := 0
	count := map[string]int{}
	for _, o := range outs {
		count[o.Outcome]++
		switch o.Outcome {
		case "killed", "silent", "flagged":
		default:
			bad++
		}
	}
	fmt.Printf("selftest: %d mutants: %v\n", len(outs), count)
	if bad > 0 {
		return 1
	}
	return 0
}

func cmdReplay(args []string) int {
	if len(args) != 1 {
		usage()
	}
	b, err := os.ReadFile(args[0])
	if err != nil {
		fmt.Fprintln(os.Stderr, err)
		return 2
	}
	var v struct{ Property, Key string }
	if err := json.Unmarshal(b, &v); err != nil {
		fmt.Fprintln(os.Stderr, err)
		return 2
	}
	chk := rules.Get(v.Property)
	if chk == nil {
		fmt.Fprintln(os.Stderr, "unknown property", v.Property)
		return 2
	}
	p, err := loadFor(chk, primary, nil)
	if err != nil {
		fmt.Fprintln(os.Stderr, "CHECK-ERROR:", err)
		return 2
	}
	res := rules.RunCheck(chk, p, primary.String())
	for _, o := range res.Obligations {
		if o.Key == v.Key {
			fmt.Printf("%s %s @ %s %s\n", o.Status, o.Key, o.Pos, o.Detail)
			if o.Status == report.Violated {
				fmt.Printf("VIOLATION property=%s replay=%s\n", v.Property, args[0])
				return 1
			}
			return 0
		}
	}
	fmt.Printf("obligation %s no longer exists on this tree\n", v.Key)
	return 0
}

// ---------------------------------------------------------------------------
// manifest

var allProps = []string{"C01", "C02", "C03", "C04", "C05", "C06", "C07", "C08", "C09", "C10", "C11", "C12", "C13", "C14", "C15", "C16", "C17", "C18", "C19", "C20"}

// pending holds the reason a property has no check (yet).
var pending = map[string]string{}

func cmdManifest() int {
	type lvl struct {
		Category  string `json:"category"`
		Text      string `json:"text"`
		DesignRef string `json:"design_ref"`
	}
	type check struct {
		PropertyID   string `json:"property_id"`
		QuickCmd     string `json:"quick_cmd"`
		ThoroughCmd  string `json:"thorough_cmd"`
		EvidenceFile string `json:"evidence_file"`
		Replay       string `json:"replay_cmd_template"`
		Engine       string `json:"engine"`
		Level        lvl    `json:"level_claimed"`
		LevelNote    string `json:"level_note"`
		Technique    string `json:"technique"`
	}
	type na struct {
		PropertyID string `json:"property_id"`
		Reason     string `json:"reason"`
	}
	var checks []check
	var nas []na
	var served []string
	for _, id := range allProps {
		c := rules.Get(id)
		if c == nil {
			reason := pending[id]
			if reason == "" {
				reason = "static check not built yet in this stage of the work (see DESIGN.md section 4 for the planned rules); no other technique is substituted"
			}
			nas = append(nas, na{id, reason})
			continue
		}
		served = append(served, id)
		checks = append(checks, check{
			PropertyID:   id,
			QuickCmd:     "./run.sh " + id + " quick",
			ThoroughCmd:  "./run.sh " + id + " thorough",
			EvidenceFile: "/verif/evidence/" + id + ".json",
			Replay:       "./bin/verifcheck replay {path}",
			Engine:       "verifcheck",
			Level: lvl{"other", "Static analysis of the type-checked source (go/ssa). Decides a named structural clause that is a necessary condition of the property on every path / call site / table entry of the current tree: " +
				c.Explanation + " It does NOT decide: " + c.NotDecided, "DESIGN.md section 4, " + id},
			LevelNote: "Trusted: go/types, go/ssa, go/packages (x/tools v0.29.0); the library semantics named in DESIGN.md 2.8. The claim is the structural clause only, never the behaviour quantified over inputs, schedules or time.",
			Technique: c.Technique,
		})
	}
	m := map[string]any{
		"version":   1,
		"setup_cmd": "cd /verif/checker && GOFLAGS=-mod=mod GOPROXY=off GOSUMDB=off GOTOOLCHAIN=local GOWORK=off CGO_ENABLED=0 go build -o /verif/bin/verifcheck .",
		"hooks": map[string]any{
			"guard":            "verif",
			"enable":           "none needed: the checks read the working tree of /repo; no instrumentation, no build tag is consulted",
			"baseline_off_cmd": "cd /repo && GOFLAGS=-mod=mod go test -vet=off -count=1 -timeout 25m ./...",
			"source_commits":   []string{},
			"add_only":         true,
		},
		"engines": []map[string]any{{"name": "verifcheck", "path": "/verif/checker", "serves_properties": served,
			"kind_free_text": "repository-specific static analyser (go/packages + go/ssa): dataflow, guard dominance, must-pass-through path queries, locksets, typestate, taint, table agreement"}},
		"checks":         checks,
		"not_applicable": nas,
		"notes":          "All claims are level 'other' (static analysis). Exit 0 = every obligation discharged (or listed open in KNOWN_FINDINGS.txt); exit 1 + VIOLATION line = a rule instance is violated, or a rule could not be applied to the tree (unresolved role, rule below its floor, undecided obligation: the replay file then has kind 'not-established' and a CHECK-ERROR line goes to stderr); exit 2 + CHECK-ERROR on stderr = the checker itself failed (load or type-check error of the tree, internal panic).",
	}
	if nas == nil {
		m["not_applicable"] = []na{}
	}
	b, _ := json.MarshalIndent(m, "", " ")
	fmt.Println(string(b))
	return 0
}

// ---------------------------------------------------------------------------
// seeded changes (kept under /verif/seeded/<id>/patch.diff): re-detection through overlays

type seedOutcome struct {
	ID      string `json:"id"`
	Outcome string `json:"outcome"` // detected | flagged (not-established only) | missed | not-applicable | error
	Detail  string `json:"detail,omitempty"`
}

func runSeeds(prop string, verbose bool) []seedOutcome {
	dirs, _ := filepath.Glob(filepath.Join(verifDir, "seeded", "*"))
	sort.Strings(dirs)
	type job struct {
		id, dir, prop string
	}
	var jobs []job
	for _, d := range dirs {
		b, err := os.ReadFile(filepath.Join(d, "meta.json"))
		if err != nil {
			continue
		}
		var m struct {
			ID    string `json:"id"`
			Prop  string `json:"breaks_property"`
			Check string `json:"check_result"`
		}
		if json.Unmarshal(b, &m) != nil || (prop != "" && m.Prop != prop) || m.Check == "missed" {
			continue
		}
		jobs = append(jobs, job{m.ID, d, m.Prop})
	}
	outs := make([]seedOutcome, len(jobs))
	var wg sync.WaitGroup
	sem := make(chan struct{}, 6)
	for i, j := range jobs {
		wg.Add(1)
		go func(i int, j job) {
			defer wg.Done()
			sem <- struct{}{}
			defer func() { <-sem }()
			outs[i] = runSeed(j.id, j.dir, j.prop)
			if verbose {
				fmt.Printf("  seed   %-40s %s %s\n", j.id, outs[i].Outcome, outs[i].Detail)
			}
		}(i, j)
	}
	wg.Wait()
	return outs
}

func runSeed(id, dir, prop string) (out seedOutcome) {
	out.ID = id
	defer func() {
		if r := recover(); r != nil {
			out.Outcome, out.Detail = "error", fmt.Sprintf("panic: %v", r)
		}
	}()
	chk := rules.Get(prop)
	patch, err := os.ReadFile(filepath.Join(dir, "patch.diff"))
	if chk == nil || err != nil {
		out.Outcome, out.Detail = "error", "no patch / unknown property"
		return
	}
	// files touched by the patch
	var files []string
	for _, l := range strings.Split(string(patch), "\n") {
		if strings.HasPrefix(l, "+++ b/") {
			files = append(files, strings.TrimSpace(strings.TrimPrefix(l, "+++ b/")))
		}
	}
	tmp, err := os.MkdirTemp("", "verif-seed-")
	if err != nil {
		out.Outcome, out.Detail = "error", err.Error()
		return
	}
	defer os.RemoveAll(tmp)
	for _, f := range files {
		src, err := os.ReadFile(filepath.Join(repoDir, f))
		if err != nil {
			// a file the patch creates
			src = nil
		}
		os.MkdirAll(filepath.Dir(filepath.Join(tmp, f)), 0o755)
		if src != nil {
			os.WriteFile(filepath.Join(tmp, f), src, 0o644)
		}
	}
	cmd := exec.Command("patch", "-p1", "-s", "-f", "-d", tmp, "-i", filepath.Join(dir, "patch.diff"))
	if b, err := cmd.CombinedOutput(); err != nil {
		out.Outcome, out.Detail = "not-applicable", "patch does not apply to the current tree: "+strings.TrimSpace(string(b))
		return
	}
	overlay := map[string][]byte{}
	for _, f := range files {
		b, err := os.ReadFile(filepath.Join(tmp, f))
		if err == nil {
			overlay[filepath.Join(repoDir, f)] = b
		}
	}
	res, _, err := decide(chk, primary, overlay)
	if err != nil {
		out.Outcome, out.Detail = "error", "does not load: "+err.Error()
		return
	}
	findings, _ := report.LoadFindings(filepath.Join(verifDir, "KNOWN_FINDINGS.txt"))
	open := map[string]bool{}
	for _, f := range findings {
		if f.Open {
			open[f.Key] = true
		}
	}
	for _, o := range res.Obligations {
		if o.Status == report.Violated && !open[o.Key] {
			out.Outcome, out.Detail = "detected", o.Key
			return
		}
	}
	// no rule instance is violated; a rule that lost its anchor on the changed tree (role, floor, undecided obligation)
	// still makes the check report "not established" (exit 1): flagged, but without naming the defect
	var anchors []string
	anchors = append(anchors, res.Errors...)
	for _, o := range res.Obligations {
		if o.Status == report.Undecided {
			anchors = append(anchors, "undecided "+o.Key)
		}
	}
	if len(anchors) > 0 {
		out.Outcome, out.Detail = "flagged", "not-established: "+strings.Join(anchors, "; ")
		return
	}
	out.Outcome = "missed"
	return
}

// ---------------------------------------------------------------------------
// benign corpus: behaviour-preserving refactorings (/verif/benign/<id>/patch.diff) on which every check whose
// packages are touched must stay silent (no violation, no CHECK-ERROR).

func patchOverlay(dir string) (map[string][]byte, []string, error) {
	patch, err := os.ReadFile(filepath.Join(dir, "patch.diff"))
	if err != nil {
		return nil, nil, err
	}
	var files []string
	for _, l := range strings.Split(string(patch), "\n") {
		if strings.HasPrefix(l, "+++ b/") {
			files = append(files, strings.TrimSpace(strings.TrimPrefix(l, "+++ b/")))
		}
	}
	tmp, err := os.MkdirTemp("", "verif-patch-")
	if err != nil {
		return nil, nil, err
	}
	defer os.RemoveAll(tmp)
	for _, f := range files {
		src, err := os.ReadFile(filepath.Join(repoDir, f))
		os.MkdirAll(filepath.Dir(filepath.Join(tmp, f)), 0o755)
		if err == nil {
			os.WriteFile(filepath.Join(tmp, f), src, 0o644)
		}
	}
	cmd := exec.Command("patch", "-p1", "-s", "-f", "-d", tmp, "-i", filepath.Join(dir, "patch.diff"))
	if b, err := cmd.CombinedOutput(); err != nil {
		return nil, files, fmt.Errorf("patch does not apply to the current tree: %s", strings.TrimSpace(string(b)))
	}
	overlay := map[string][]byte{}
	for _, f := range files {
		b, err := os.ReadFile(filepath.Join(tmp, f))
		if err == nil {
			overlay[filepath.Join(repoDir, f)] = b
		}
	}
	return overlay, files, nil
}

// runBenign runs, for every benign refactoring, the checks of the properties whose packages the patch touches
// (restricted to prop when given). Outcomes: silent | false-alarm | check-error | not-applicable.
func runBenign(prop string, verbose bool) []seedOutcome {
	dirs, _ := filepath.Glob(filepath.Join(verifDir, "benign", "*"))
	sort.Strings(dirs)
	var outs []seedOutcome
	var mu sync.Mutex
	var wg sync.WaitGroup
	sem := make(chan struct{}, 6)
	findings, _ := report.LoadFindings(filepath.Join(verifDir, "KNOWN_FINDINGS.txt"))
	open := map[string]bool{}
	for _, f := range findings {
		if f.Open {
			open[f.Key] = true
		}
	}
	for _, d := range dirs {
		if _, err := os.Stat(filepath.Join(d, "patch.diff")); err != nil {
			continue
		}
		id := filepath.Base(d)
		overlay, files, err := patchOverlay(d)
		if err != nil {
			if prop == "" {
				outs = append(outs, seedOutcome{ID: id, Outcome: "not-applicable", Detail: err.Error()})
			}
			continue
		}
		for _, pid := range rules.IDs() {
			if prop != "" && pid != prop {
				continue
			}
			chk := rules.Get(pid)
			touched := false
			for _, f := range files {
				for _, pk := range chk.Pkgs {
					if filepath.ToSlash(filepath.Dir(f)) == pk {
						touched = true
					}
				}
			}
			if !touched {
				continue
			}
			wg.Add(1)
			go func(id string, chk *rules.Check, overlay map[string][]byte) {
				defer wg.Done()
				sem <- struct{}{}
				defer func() { <-sem }()
				out := seedOutcome{ID: id + "/" + chk.ID}
				func() {
					defer func() {
						if r := recover(); r != nil {
							out.Outcome, out.Detail = "check-error", fmt.Sprintf("panic: %v", r)
						}
					}()
					res, note, err := decide(chk, primary, overlay)
					if err != nil {
						out.Outcome, out.Detail = "check-error", "does not load: "+err.Error()
						return
					}
					_ = note
					for _, o := range res.Obligations {
						if o.Status == report.Violated && !open[o.Key] {
							out.Outcome, out.Detail = "false-alarm", o.Key+" @ "+o.Pos+": "+o.Detail
							return
						}
						if o.Status == report.Undecided {
							out.Outcome, out.Detail = "check-error", "undecided: "+o.Key+" "+o.Detail
							return
						}
					}
					if len(res.Errors) > 0 {
						out.Outcome, out.Detail = "check-error", strings.Join(res.Errors, "; ")
						return
					}
					out.Outcome = "silent"
				}()
				if verbose {
					fmt.Printf("  benign %-40s %s %s\n", out.ID, out.Outcome, out.Detail)
				}
				mu.Lock()
				outs = append(outs, out)
				mu.Unlock()
			}(id, chk, overlay)
		}
	}
	wg.Wait()
	sort.Slice(outs, func(i, j int) bool { return outs[i].ID < outs[j].ID })
	return outs
}
