// Package report holds obligations, verdicts, evidence files and the known-findings list.
package report

import (
	"bufio"
	"crypto/sha1"
	"encoding/json"
	"fmt"
	"os"
	"path/filepath"
	"sort"
	"strings"
)

// Status of one obligation.
type Status string

const (
	Discharged Status = "discharged"
	Violated   Status = "violated"
	Undecided  Status = "undecided"
)

// Obligation is one instance of a rule on one construct of the analysed tree.
type Obligation struct {
	Key    string `json:"key"`  // Cxx.Rn|<function or type>|<construct>  (never a line number)
	Rule   string `json:"rule"` // Cxx.Rn
	Status Status `json:"status"`
	Pos    string `json:"pos"` // file:line of the construct on this run
	Detail string `json:"detail,omitempty"`
	Config string `json:"config,omitempty"`
}

// Result is what one property check produced for one configuration.
type Result struct {
	Property    string
	Config      string
	Obligations []*Obligation
	Roles       map[string]string // role -> symbol @ pos
	Functions   []string          // functions analysed
	Packages    []string
	Floors      map[string][2]int // rule -> {floor, actual}
	Errors      []string          // CHECK-ERROR reasons (unresolved role, undecided, floor)
}

// NewResult creates an empty result.
func NewResult(prop, cfg string) *Result {
	return &Result{Property: prop, Config: cfg, Roles: map[string]string{}, Floors: map[string][2]int{}}
}

// Add records an obligation.
func (r *Result) Add(rule, where, construct, pos string, st Status, detail string) *Obligation {
	o := &Obligation{Key: rule + "|" + where + "|" + construct, Rule: rule, Status: st, Pos: pos, Detail: detail, Config: r.Config}
	// keep keys unique: a repeated construct in the same function gets an ordinal
	n := 0
	for _, x := range r.Obligations {
		if x.Key == o.Key || strings.HasPrefix(x.Key, o.Key+"#") {
			n++
		}
	}
	if n > 0 {
		o.Key = fmt.Sprintf("%s#%d", o.Key, n+1)
	}
	r.Obligations = append(r.Obligations, o)
	return o
}

// Errorf records a reason for a CHECK-ERROR.
func (r *Result) Errorf(format string, a ...any) {
	r.Errors = append(r.Errors, fmt.Sprintf(format, a...))
}

// Role records a resolved role.
func (r *Result) Role(name, symbol string) { r.Roles[name] = symbol }

// Count returns the number of obligations of a rule.
func (r *Result) Count(rule string) int {
	n := 0
	for _, o := range r.Obligations {
		if o.Rule == rule {
			n++
		}
	}
	return n
}

// Floor checks that the rule produced at least min obligations.
func (r *Result) Floor(rule string, min int) {
	n := r.Count(rule)
	r.Floors[rule] = [2]int{min, n}
	if n < min {
		r.Errorf("rule %s matched %d construct(s), below its floor of %d: the anchored code changed shape and the rule would pass vacuously", rule, n, min)
	}
}

// ---------------------------------------------------------------------------
// known findings

// Finding is one line of KNOWN_FINDINGS.txt.
type Finding struct {
	Open     bool
	Property string
	Key      string // obligation key for open findings
	Text     string
}

// LoadFindings parses the known-findings file. Lines:
//
//	open: property=C05 key=<obligation key> <what fails>
//	fixed: property=C10 <commit> <what failed>
func LoadFindings(path string) ([]Finding, error) {
	f, err := os.Open(path)
	if err != nil {
		if os.IsNotExist(err) {
			return nil, nil
		}
		return nil, err
	}
	defer f.Close()
	var res []Finding
	sc := bufio.NewScanner(f)
	sc.Buffer(make([]byte, 1<<20), 1<<20)
	for sc.Scan() {
		line := strings.TrimSpace(sc.Text())
		if line == "" || strings.HasPrefix(line, "#") {
			continue
		}
		var fd Finding
		switch {
		case strings.HasPrefix(line, "open:"):
			fd.Open = true
			line = strings.TrimSpace(line[5:])
		case strings.HasPrefix(line, "fixed:"):
			line = strings.TrimSpace(line[6:])
		default:
			return nil, fmt.Errorf("known findings: unrecognised line %q", line)
		}
		fs := strings.Fields(line)
		if len(fs) == 0 || !strings.HasPrefix(fs[0], "property=") {
			return nil, fmt.Errorf("known findings: missing property= in %q", line)
		}
		fd.Property = strings.TrimPrefix(fs[0], "property=")
		rest := strings.TrimSpace(strings.TrimPrefix(line, fs[0]))
		if fd.Open {
			if !strings.HasPrefix(rest, "key=") {
				return nil, fmt.Errorf("known findings: open finding without key= in %q", line)
			}
			rest = rest[4:]
			// the key ends at the first space that follows the last '|' segment
			i := strings.Index(rest, " ")
			if i < 0 {
				fd.Key = rest
			} else {
				fd.Key, fd.Text = rest[:i], strings.TrimSpace(rest[i+1:])
			}
		} else {
			fd.Text = rest
		}
		res = append(res, fd)
	}
	return res, sc.Err()
}

// ---------------------------------------------------------------------------
// evidence

// Evidence mirrors EVIDENCE.schema.json.
type Evidence struct {
	PropertyID  string         `json:"property_id"`
	Tier        string         `json:"tier"`
	Seed        int64          `json:"seed"`
	Level       string         `json:"level"`
	Coverage    map[string]any `json:"coverage"`
	Assumptions []string       `json:"assumptions"`
	WallS       float64        `json:"wall_s"`
	Violations  int            `json:"violations"`
}

// WriteJSON writes v atomically.
func WriteJSON(path string, v any) error {
	if err := os.MkdirAll(filepath.Dir(path), 0o755); err != nil {
		return err
	}
	b, err := json.MarshalIndent(v, "", " ")
	if err != nil {
		return err
	}
	tmp := path + ".tmp"
	if err := os.WriteFile(tmp, append(b, '\n'), 0o644); err != nil {
		return err
	}
	return os.Rename(tmp, path)
}

// KeyHash is a short stable hash of an obligation key, used in replay file names.
func KeyHash(key string) string {
	h := sha1.Sum([]byte(key))
	return fmt.Sprintf("%x", h[:5])
}

// SortObligations orders obligations by key (deterministic output).
func SortObligations(os []*Obligation) {
	sort.SliceStable(os, func(i, j int) bool { return os[i].Key < os[j].Key })
}
