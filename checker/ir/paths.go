package ir

import (
	"fmt"
	"go/constant"
	"go/token"
	"go/types"
	"sort"
	"strings"

	"golang.org/x/tools/go/ssa"
)

// ---------------------------------------------------------------------------
// path enumeration with a boolean valuation
//
// PathQuery enumerates the paths of one function from its entry to a target instruction and hands the target
// what is known about boolean values on that path: which branch conditions were decided and how, with
//   - phi nodes resolved to the operand selected by the incoming edge of the path,
//   - negations folded,
//   - loads of a cell that the function never stores to (captured variables, spilled parameters) identified
//     with each other,
//   - == / != on the same pair of operands identified with each other.
// Contradictory branches are pruned. Nothing is executed: the valuation is a set of facts about SSA values.

// Valuation is what one path knows.
type Valuation struct {
	fn     *ssa.Function
	known  map[string]bool        // canonical term -> truth
	deps   map[string][]ssa.Value // canonical term -> SSA values it mentions (to forget it when they are redefined)
	alias  map[ssa.Value]aterm    // phi -> term selected by this path; load of a tracked cell -> term of what the cell held
	stored map[ssa.Value]bool     // cells (Alloc / FreeVar / Global) with a store in fn
	// mem: what a tracked cell holds at this point of the path. A tracked cell is a local whose address is used for
	// nothing but loads and stores in fn (a named result, a variable assigned on several paths): nothing else can write it.
	mem     map[ssa.Value]aterm
	tracked map[ssa.Value]bool
}

type aterm struct {
	key    string
	neg    bool
	deps   []ssa.Value
	nonnil bool // the value is known to be a non-nil interface/pointer (result of fmt.Errorf, errors.New, &T{})
}

func (v *Valuation) clone() *Valuation {
	n := &Valuation{fn: v.fn, known: make(map[string]bool, len(v.known)+1), deps: make(map[string][]ssa.Value, len(v.deps)+1),
		alias: make(map[ssa.Value]aterm, len(v.alias)+1), stored: v.stored, tracked: v.tracked, mem: make(map[ssa.Value]aterm, len(v.mem)+1)}
	for k, x := range v.mem {
		n.mem[k] = x
	}
	for k, x := range v.known {
		n.known[k] = x
	}
	for k, x := range v.deps {
		n.deps[k] = x
	}
	for k, x := range v.alias {
		n.alias[k] = x
	}
	return n
}

func (v *Valuation) encode() string {
	var ks []string
	for k, x := range v.known {
		ks = append(ks, fmt.Sprintf("%s=%t", k, x))
	}
	for k, x := range v.alias {
		ks = append(ks, fmt.Sprintf("%s:=%s/%t", k.Name(), x.key, x.neg))
	}
	for k, x := range v.mem {
		ks = append(ks, fmt.Sprintf("*%s:=%s/%t/%t", k.Name(), x.key, x.neg, x.nonnil))
	}
	sort.Strings(ks)
	return strings.Join(ks, ";")
}

// term computes the canonical term of a boolean (or any) value on this path.
func (v *Valuation) term(x ssa.Value, depth int) aterm {
	if depth > 8 {
		return aterm{key: "v:" + x.Name(), deps: []ssa.Value{x}}
	}
	switch y := x.(type) {
	case *ssa.Const:
		if y.Value == nil {
			return aterm{key: "nil"}
		}
		if y.Value.Kind() == constant.Bool {
			return aterm{key: "true", neg: !constant.BoolVal(y.Value)}
		}
		return aterm{key: "const:" + y.Value.ExactString()}
	case *ssa.Phi:
		if a, ok := v.alias[y]; ok {
			return a
		}
	case *ssa.UnOp:
		switch y.Op {
		case token.NOT:
			a := v.term(y.X, depth+1)
			a.neg = !a.neg
			return a
		case token.MUL:
			if a, ok := v.alias[y]; ok {
				return a
			}
			if cell := cellOf(y.X); cell != nil && !v.stored[cell] {
				return aterm{key: "cell:" + cell.Name()}
			}
		}
	case *ssa.BinOp:
		if y.Op == token.EQL || y.Op == token.NEQ {
			a, b := v.term(y.X, depth+1), v.term(y.Y, depth+1)
			if a.neg || b.neg {
				break
			}
			if a.key == b.key && (a.key == "nil" || strings.HasPrefix(a.key, "const:")) {
				// the same constant on both sides (a phi resolved to nil compared with nil)
				return aterm{key: "true", neg: y.Op == token.NEQ}
			}
			if strings.HasPrefix(a.key, "const:") && strings.HasPrefix(b.key, "const:") && a.key != b.key {
				// two different constants (a state variable assigned constants in the branches, resolved by the path to the
				// one it came through, compared with a constant behind the merge): the comparison is decided
				return aterm{key: "true", neg: y.Op == token.EQL}
			}
			if (a.key == "nil" && b.nonnil) || (b.key == "nil" && a.nonnil) {
				// x == nil for a value known to be non-nil
				return aterm{key: "true", neg: y.Op == token.EQL}
			}
			ks := []string{a.key, b.key}
			sort.Strings(ks)
			return aterm{key: "eq(" + ks[0] + "," + ks[1] + ")", neg: y.Op == token.NEQ, deps: append(append([]ssa.Value{}, a.deps...), b.deps...)}
		}
	case *ssa.ChangeType:
		return v.term(y.X, depth+1)
	case *ssa.MakeInterface:
		a := v.term(y.X, depth+1)
		if _, isPtr := y.X.(*ssa.Alloc); isPtr {
			a.nonnil = true
		}
		return a
	case *ssa.Call:
		switch CalleeFullName(y) {
		case "fmt.Errorf", "errors.New":
			return aterm{key: "v:" + x.Name(), deps: []ssa.Value{x}, nonnil: true}
		}
	case *ssa.Alloc:
		return aterm{key: "v:" + x.Name(), deps: []ssa.Value{x}, nonnil: true}
	}
	return aterm{key: "v:" + x.Name(), deps: []ssa.Value{x}}
}

func cellOf(addr ssa.Value) ssa.Value {
	switch a := addr.(type) {
	case *ssa.Alloc, *ssa.FreeVar, *ssa.Global:
		return a
	}
	return nil
}

// Known reports the truth of x on this path, if the path decided it.
func (v *Valuation) Known(x ssa.Value) (val, ok bool) {
	t := v.term(x, 0)
	if t.key == "true" {
		return !t.neg, true
	}
	if k, has := v.known[t.key]; has {
		return k != t.neg, true
	}
	return false, false
}

// KnownCell reports the truth of the boolean stored in a cell the function never writes (a captured flag).
func (v *Valuation) KnownCell(cell ssa.Value) (val, ok bool) {
	if v.stored[cell] {
		return false, false
	}
	k, has := v.known["cell:"+cell.Name()]
	return k, has
}

// KnownNil reports whether the content of a never-written cell is known to be nil (true) / non-nil (false).
func (v *Valuation) KnownNil(cell ssa.Value) (isNil, ok bool) {
	if v.stored[cell] {
		return false, false
	}
	ks := []string{"cell:" + cell.Name(), "nil"}
	sort.Strings(ks)
	k, has := v.known["eq("+ks[0]+","+ks[1]+")"]
	return k, has
}

func (v *Valuation) forget(b *ssa.BasicBlock) {
	def := func(x ssa.Value) bool {
		in, ok := x.(ssa.Instruction)
		return ok && in.Block() == b
	}
	for k, ds := range v.deps {
		for _, d := range ds {
			if def(d) {
				delete(v.known, k)
				delete(v.deps, k)
				break
			}
		}
	}
	for c, a := range v.mem {
		for _, d := range a.deps {
			if def(d) {
				delete(v.mem, c)
				break
			}
		}
	}
	for p, a := range v.alias {
		if def(p) {
			delete(v.alias, p)
			continue
		}
		for _, d := range a.deps {
			if def(d) {
				delete(v.alias, p)
				break
			}
		}
	}
}

// effect applies what instruction in does to the tracked cells: a store binds the cell, a load is identified with what
// the cell holds.
func (v *Valuation) effect(in ssa.Instruction) {
	switch x := in.(type) {
	case *ssa.Store:
		if v.tracked[x.Addr] {
			v.mem[x.Addr] = v.term(x.Val, 0)
		}
	case *ssa.FieldAddr:
		// a field address through a pointer: had the pointer been nil, the execution would have panicked here
		if _, isPtr := x.X.Type().Underlying().(*types.Pointer); isPtr {
			v.noteNonNil(x.X)
		}
	case *ssa.UnOp:
		if x.Op == token.MUL {
			if _, isCell := x.X.(*ssa.Alloc); !isCell {
				if _, isG := x.X.(*ssa.Global); !isG {
					if _, isFV := x.X.(*ssa.FreeVar); !isFV {
						v.noteNonNil(x.X)
					}
				}
			}
		}
		if x.Op == token.MUL && v.tracked[x.X] {
			if t, ok := v.mem[x.X]; ok {
				v.alias[x] = t
			} else {
				// from here on the cell is known to hold what this load saw
				v.mem[x.X] = aterm{key: "v:" + x.Name(), deps: []ssa.Value{x}}
			}
		}
	}
}

func (v *Valuation) noteNonNil(p ssa.Value) {
	t := v.term(p, 0)
	if t.nonnil || t.key == "nil" || t.neg {
		return
	}
	ks := []string{t.key, "nil"}
	sort.Strings(ks)
	k := "eq(" + ks[0] + "," + ks[1] + ")"
	if _, has := v.known[k]; !has {
		v.known[k] = false
		v.deps[k] = t.deps
	}
}

// trackedCells: the locals of fn whose address is only loaded from and stored to.
func trackedCells(fn *ssa.Function) map[ssa.Value]bool {
	res := map[ssa.Value]bool{}
	Instrs(fn, func(in ssa.Instruction) {
		al, ok := in.(*ssa.Alloc)
		if !ok || al.Referrers() == nil {
			return
		}
		for _, r := range *al.Referrers() {
			switch y := r.(type) {
			case *ssa.Store:
				if y.Addr != ssa.Value(al) || y.Val == ssa.Value(al) {
					return
				}
			case *ssa.UnOp:
				if y.Op != token.MUL {
					return
				}
			case *ssa.DebugRef:
			default:
				return
			}
		}
		res[al] = true
	})
	return res
}

// PathQuery is the search.
type PathQuery struct {
	Fn        *ssa.Function
	From      ssa.Instruction                               // start right after this instruction with an empty valuation (nil: function entry)
	FromFacts bool                                          // with From: start with the branch facts that dominate From's block (they hold whenever From executes)
	Target    func(in ssa.Instruction, val *Valuation) bool // true: this arrival is a witness
	Stop      func(in ssa.Instruction) bool                 // paths end here (optional)
	StopEdge  func(from, to *ssa.BasicBlock) bool           // paths do not continue over this edge (optional)
	MaxStates int
}

// Find returns a witness path, nil when none exists, ErrUndecided when the state bound is hit.
func (q PathQuery) Find() (*Witness, error) {
	fn := q.Fn
	if len(fn.Blocks) == 0 {
		return nil, nil
	}
	max := q.MaxStates
	if max == 0 {
		max = 100000
	}
	stored := map[ssa.Value]bool{}
	Instrs(fn, func(in ssa.Instruction) {
		if st, ok := in.(*ssa.Store); ok {
			if c := cellOf(st.Addr); c != nil {
				stored[c] = true
			}
		}
		// a cell whose address escapes into a call may be written there
		if call, ok := in.(ssa.CallInstruction); ok {
			for _, a := range call.Common().Args {
				if c := cellOf(a); c != nil {
					stored[c] = true
				}
			}
		}
	})
	type item struct {
		blk   *ssa.BasicBlock
		prev  *ssa.BasicBlock
		val   *Valuation
		trail []int
		first int // index of the first instruction to look at (only for the start item)
	}
	start := item{blk: fn.Blocks[0], val: &Valuation{fn: fn, known: map[string]bool{}, deps: map[string][]ssa.Value{}, alias: map[ssa.Value]aterm{}, stored: stored,
		mem: map[ssa.Value]aterm{}, tracked: trackedCells(fn)}, trail: []int{0}}
	if q.From != nil {
		start.blk = q.From.Block()
		start.trail = []int{start.blk.Index}
		for i, in := range start.blk.Instrs {
			if in == q.From {
				start.first = i + 1
			}
		}
		if q.FromFacts {
			for _, f := range Facts(start.blk) {
				t := start.val.term(f.Cond, 0)
				if t.key == "true" {
					continue
				}
				start.val.known[t.key] = f.True != t.neg
				start.val.deps[t.key] = t.deps
			}
			// a cell that was loaded for one of those tests and cannot have been written since still holds that value
			for _, f := range Facts(start.blk) {
				var loads []*ssa.UnOp
				var walk func(x ssa.Value, d int)
				walk = func(x ssa.Value, d int) {
					if d > 4 {
						return
					}
					switch y := x.(type) {
					case *ssa.UnOp:
						if y.Op == token.MUL && start.val.tracked[y.X] {
							loads = append(loads, y)
						} else {
							walk(y.X, d+1)
						}
					case *ssa.BinOp:
						walk(y.X, d+1)
						walk(y.Y, d+1)
					}
				}
				walk(f.Cond, 0)
				for _, ld := range loads {
					if _, has := start.val.mem[ld.X]; !has && noStoreBetween(ld.X, ld, q.From) {
						start.val.mem[ld.X] = aterm{key: "v:" + ld.Name(), deps: []ssa.Value{ld}}
					}
				}
			}
		}
	}
	seen := map[string]bool{}
	work := []item{start}
	states := 0
	for len(work) > 0 {
		it := work[len(work)-1]
		work = work[:len(work)-1]
		states++
		if states > max {
			return nil, ErrUndecided
		}
		val := it.val
		// phis read the values of the previous block: compute their terms first, then forget, then bind
		type bind struct {
			p *ssa.Phi
			a aterm
		}
		var binds []bind
		if it.prev != nil {
			for j, p := range it.blk.Preds {
				if p != it.prev {
					continue
				}
				for _, in := range it.blk.Instrs {
					phi, ok := in.(*ssa.Phi)
					if !ok {
						break
					}
					binds = append(binds, bind{phi, val.term(phi.Edges[j], 0)})
				}
				break
			}
		}
		val = val.clone()
		if it.first == 0 {
			val.forget(it.blk)
		}
		for _, b := range binds {
			val.alias[b.p] = b.a
		}
		stopped := false
		for i, in := range it.blk.Instrs {
			if i < it.first {
				continue
			}
			if _, isStore := in.(*ssa.Store); !isStore {
				val.effect(in)
			}
			if q.Target != nil && q.Target(in, val) {
				return &Witness{Blocks: it.trail, End: in}, nil
			}
			if _, isStore := in.(*ssa.Store); isStore {
				val.effect(in)
			}
			if q.Stop != nil && q.Stop(in) {
				stopped = true
				break
			}
		}
		if stopped {
			continue
		}
		var cond ssa.Value
		if len(it.blk.Instrs) > 0 {
			if iff, ok := it.blk.Instrs[len(it.blk.Instrs)-1].(*ssa.If); ok {
				cond = iff.Cond
			}
		}
		for si, s := range it.blk.Succs {
			if q.StopEdge != nil && q.StopEdge(it.blk, s) {
				continue
			}
			nv := val
			if cond != nil && len(it.blk.Succs) == 2 {
				taken := si == 0
				if k, ok := val.Known(cond); ok {
					if k != taken {
						continue
					}
				} else {
					t := val.term(cond, 0)
					nv = val.clone()
					nv.known[t.key] = taken != t.neg
					nv.deps[t.key] = t.deps
				}
			}
			key := fmt.Sprintf("%d<%d|%s", s.Index, it.blk.Index, nv.encode())
			if seen[key] {
				continue
			}
			seen[key] = true
			tr := append(append([]int{}, it.trail...), s.Index)
			if len(tr) > 64 {
				tr = tr[len(tr)-64:]
			}
			work = append(work, item{blk: s, prev: it.blk, val: nv, trail: tr})
		}
	}
	return nil, nil
}

// KnownIsNil reports whether the path decided that v (an interface or pointer value) is nil: some branch on the path
// compared it - or, with phi operands resolved by the path, the value it is on this path - with nil.
func (v *Valuation) KnownIsNil(x ssa.Value) (isNil, ok bool) {
	t := v.term(x, 0)
	if t.key == "nil" {
		return true, true
	}
	if t.nonnil {
		return false, true
	}
	ks := []string{t.key, "nil"}
	sort.Strings(ks)
	k, has := v.known["eq("+ks[0]+","+ks[1]+")"]
	return k, has
}

// noStoreBetween: no store to cell can execute after instruction a and before instruction b, on any path from a to b.
// a must dominate b.
func noStoreBetween(cell ssa.Value, a, b ssa.Instruction) bool {
	if !Dominates(a, b) {
		return false
	}
	isStore := func(in ssa.Instruction) bool {
		st, ok := in.(*ssa.Store)
		return ok && st.Addr == cell
	}
	ab, bb := a.Block(), b.Block()
	if ab == bb {
		seen := false
		for _, in := range ab.Instrs {
			if in == a {
				seen = true
				continue
			}
			if in == b {
				break
			}
			if seen && isStore(in) {
				return false
			}
		}
		// (a path that leaves the block and comes back passes a again, so what a loaded is loaded anew)
		return true
	}
	after := false
	for _, in := range ab.Instrs {
		if in == a {
			after = true
			continue
		}
		if after && isStore(in) {
			return false
		}
	}
	for _, in := range bb.Instrs {
		if in == b {
			break
		}
		if isStore(in) {
			return false
		}
	}
	// blocks strictly between: reachable from a's block without passing it again, and reaching b's block
	fwd := map[*ssa.BasicBlock]bool{}
	var dfs func(x *ssa.BasicBlock)
	dfs = func(x *ssa.BasicBlock) {
		for _, s := range x.Succs {
			if s == ab || fwd[s] {
				continue
			}
			fwd[s] = true
			dfs(s)
		}
	}
	dfs(ab)
	// (b's block is in fwd only... always; its instructions behind b count when it can be entered again without passing a)
	again := map[*ssa.BasicBlock]bool{}
	var dfs2 func(x *ssa.BasicBlock)
	dfs2 = func(x *ssa.BasicBlock) {
		for _, s := range x.Succs {
			if s == ab || again[s] {
				continue
			}
			again[s] = true
			dfs2(s)
		}
	}
	dfs2(bb)
	for x := range fwd {
		if x == bb && !again[bb] {
			continue
		}
		if !reaches(x, bb) {
			continue
		}
		for _, in := range x.Instrs {
			if isStore(in) {
				return false
			}
		}
	}
	return true
}
