package ir

import (
	"sync"
	"fmt"
	"go/constant"
	"go/token"
	"go/types"
	"sort"
	"strings"

	"golang.org/x/tools/go/ssa"
)

// ---------------------------------------------------------------------------
// callee resolution

// StaticCallee returns the statically called function of a call instruction, normalised
// to its generic origin; nil for interface and dynamic calls.
func StaticCallee(c ssa.CallInstruction) *ssa.Function {
	if c == nil {
		return nil
	}
	fn := c.Common().StaticCallee()
	if fn == nil {
		fn = fieldCallee(c)
	}
	if fn == nil {
		return nil
	}
	if o := fn.Origin(); o != nil {
		return o
	}
	return fn
}

// fieldCallee devirtualises a call through a function-valued struct field: when the field is unexported (only its own
// package can write it) and every store to it in that package stores one and the same declared function, a call of
// the loaded field value calls that function (an injected clock `now func() time.Time` that is only ever time.Now).
// Test files are not part of the analysed build, so what tests inject does not count.
func fieldCallee(c ssa.CallInstruction) *ssa.Function {
	cc := c.Common()
	if cc.IsInvoke() {
		return nil
	}
	ld, ok := cc.Value.(*ssa.UnOp)
	if !ok || ld.Op != token.MUL {
		return nil
	}
	fa, ok := ld.X.(*ssa.FieldAddr)
	if !ok {
		return nil
	}
	f := FieldOf(fa)
	if f == nil || f.Exported() || f.Pkg() == nil || c.Parent() == nil {
		return nil
	}
	fieldCalleeMu.Lock()
	defer fieldCalleeMu.Unlock()
	prog := c.Parent().Prog
	key := fieldCalleeKey{prog, f}
	if fn, done := fieldCalleeCache[key]; done {
		return fn
	}
	fieldCalleeCache[key] = nil
	pkg := prog.Package(f.Pkg())
	if pkg == nil {
		return nil
	}
	var target *ssa.Function
	okAll, n := true, 0
	var visit func(fn *ssa.Function)
	visit = func(fn *ssa.Function) {
		for _, b := range fn.Blocks {
			for _, in := range b.Instrs {
				switch x := in.(type) {
				case *ssa.Store:
					if a, isFA := x.Addr.(*ssa.FieldAddr); isFA && FieldOf(a) == f {
						n++
						v, isFn := x.Val.(*ssa.Function)
						if !isFn || (target != nil && target != v) {
							okAll = false
						} else {
							target = v
						}
					}
				case *ssa.FieldAddr:
					// the address of the field used for anything but a load or a store: it may be written elsewhere
					if FieldOf(x) == f && x.Referrers() != nil {
						for _, r := range *x.Referrers() {
							switch y := r.(type) {
							case *ssa.Store:
								if y.Addr != ssa.Value(x) {
									okAll = false
								}
							case *ssa.UnOp, *ssa.DebugRef:
							default:
								okAll = false
							}
						}
					}
				}
			}
		}
		for _, an := range fn.AnonFuncs {
			visit(an)
		}
	}
	for _, m := range pkg.Members {
		switch x := m.(type) {
		case *ssa.Function:
			visit(x)
		case *ssa.Type:
			for _, t := range []types.Type{x.Type(), types.NewPointer(x.Type())} {
				ms := prog.MethodSets.MethodSet(t)
				for i := 0; i < ms.Len(); i++ {
					if mf := prog.MethodValue(ms.At(i)); mf != nil && mf.Pkg == pkg {
						visit(mf)
					}
				}
			}
		}
	}
	if !okAll || n == 0 || target == nil {
		return nil
	}
	fieldCalleeCache[key] = target
	return target
}

type fieldCalleeKey struct {
	prog *ssa.Program
	f    *types.Var
}

var (
	fieldCalleeMu    sync.Mutex
	fieldCalleeCache = map[fieldCalleeKey]*ssa.Function{}
)

// CalleeObj returns the types.Func called (static or interface method), normalised to
// its origin; nil for calls of function values.
func CalleeObj(c ssa.CallInstruction) *types.Func {
	cc := c.Common()
	if cc.IsInvoke() {
		return cc.Method.Origin()
	}
	fn := cc.StaticCallee()
	if fn == nil {
		fn = fieldCallee(c)
	}
	if fn != nil {
		if o := fn.Origin(); o != nil {
			fn = o
		}
		if obj, ok := fn.Object().(*types.Func); ok && obj != nil {
			return obj.Origin()
		}
	}
	return nil
}

// CalleeFullName returns the qualified name of the callee as go/types prints it:
// "time.Now", "(*sync.Mutex).Lock", "(context.Context).Err"; "" for function values.
func CalleeFullName(c ssa.CallInstruction) string {
	if obj := CalleeObj(c); obj != nil {
		return obj.FullName()
	}
	return ""
}

// IsCall reports whether in is a (non-go, non-defer unless allowed) call whose callee has one of the full names.
func IsCall(in ssa.Instruction, names ...string) bool {
	c, ok := in.(ssa.CallInstruction)
	if !ok {
		return false
	}
	fn := CalleeFullName(c)
	if fn == "" {
		return false
	}
	for _, n := range names {
		if fn == n {
			return true
		}
	}
	return false
}

// AsCall returns in as a plain *ssa.Call (value call), or nil.
func AsCall(v interface{}) *ssa.Call {
	c, _ := v.(*ssa.Call)
	return c
}

// Args returns the arguments of a call excluding the receiver of an invoke (which is
// Common().Value) but including the receiver of a static method call as Args[0].
func Args(c ssa.CallInstruction) []ssa.Value { return c.Common().Args }

// Recv returns the receiver value of a method call (invoke or static), or nil.
func Recv(c ssa.CallInstruction) ssa.Value {
	cc := c.Common()
	if cc.IsInvoke() {
		return cc.Value
	}
	if fn := cc.StaticCallee(); fn != nil && fn.Signature.Recv() != nil && len(cc.Args) > 0 {
		return cc.Args[0]
	}
	return nil
}

// MethodArgs returns the non-receiver arguments of a call.
func MethodArgs(c ssa.CallInstruction) []ssa.Value {
	cc := c.Common()
	if cc.IsInvoke() {
		return cc.Args
	}
	if fn := cc.StaticCallee(); fn != nil && fn.Signature.Recv() != nil && len(cc.Args) > 0 {
		return cc.Args[1:]
	}
	return cc.Args
}

// ---------------------------------------------------------------------------
// value resolution

// storesTo returns the Store instructions whose address operand is exactly a (in a's function
// and in the closures that capture it).
func storesTo(a ssa.Value) []*ssa.Store {
	var res []*ssa.Store
	refs := a.Referrers()
	if refs == nil {
		return nil
	}
	for _, r := range *refs {
		switch x := r.(type) {
		case *ssa.Store:
			if x.Addr == a {
				res = append(res, x)
			}
		case *ssa.MakeClosure:
			fn := x.Fn.(*ssa.Function)
			for i, b := range x.Bindings {
				if b == a && i < len(fn.FreeVars) {
					res = append(res, storesTo(fn.FreeVars[i])...)
				}
			}
		}
	}
	return res
}

// CopyChain lists the local cells a struct value was copied through: v is a load of cell A, A was last written with a
// load of cell B, ... (whole-value copies introduced by parameter passing, in the source or by the inlining normal
// form). Only unambiguous steps are followed: the one store to the cell, or the last one before the load in its block.
func CopyChain(v ssa.Value) []ssa.Value {
	var res []ssa.Value
	for i := 0; i < 16 && v != nil; i++ {
		switch x := v.(type) {
		case *ssa.ChangeType:
			v = x.X
			continue
		case *ssa.UnOp:
			a, ok := x.X.(*ssa.Alloc)
			if x.Op != token.MUL || !ok {
				return res
			}
			res = append(res, a)
			st := reachingStore(a, x)
			if st == nil {
				return res
			}
			v = st.Val
			continue
		}
		return res
	}
	return res
}

// StoresTo is the exported form of storesTo.
func StoresTo(a ssa.Value) []*ssa.Store { return storesTo(a) }

// Resolve strips value-preserving wrappers: interface conversions, loads of single-assignment
// allocs (spilled receivers/params/locals), defer-spilled results within one block.
func Resolve(v ssa.Value) ssa.Value {
	for i := 0; i < 64 && v != nil; i++ {
		switch x := v.(type) {
		case *ssa.ChangeInterface:
			v = x.X
		case *ssa.MakeInterface:
			v = x.X
		case *ssa.ChangeType:
			v = x.X
		case *ssa.UnOp:
			if x.Op != token.MUL {
				return v
			}
			if a, ok := x.X.(*ssa.Alloc); ok {
				if s := reachingStore(a, x); s != nil && !fieldWritten(a) {
					v = s.Val
					continue
				}
			}
			if fv, ok := x.X.(*ssa.FreeVar); ok {
				if b := bindingOf(fv); b != nil {
					if a, ok := b.(*ssa.Alloc); ok {
						if sts := storesTo(a); len(sts) == 1 {
							v = sts[0].Val
							continue
						}
					}
				}
			}
			return v
		default:
			return v
		}
	}
	return v
}

// fieldWritten: some field (or element) of the struct/array kept in cell a is stored to through an address derived from
// a - the cell then no longer holds what its one whole-value store put there.
func fieldWritten(a *ssa.Alloc) bool {
	if a.Referrers() == nil {
		return false
	}
	var written func(addr ssa.Value, d int) bool
	written = func(addr ssa.Value, d int) bool {
		refs := addr.Referrers()
		if refs == nil || d > 3 {
			return false
		}
		for _, r := range *refs {
			switch y := r.(type) {
			case *ssa.Store:
				if y.Addr == addr {
					return true
				}
			case *ssa.FieldAddr:
				if y.X == addr && written(y, d+1) {
					return true
				}
			case *ssa.IndexAddr:
				if y.X == addr && written(y, d+1) {
					return true
				}
			}
		}
		return false
	}
	for _, r := range *a.Referrers() {
		switch y := r.(type) {
		case *ssa.FieldAddr:
			if y.X == ssa.Value(a) && written(y, 0) {
				return true
			}
		case *ssa.IndexAddr:
			if y.X == ssa.Value(a) && written(y, 0) {
				return true
			}
		}
	}
	return false
}

// reachingStore returns the unique store that defines the load ld of alloc a, or nil: either the
// only store to a anywhere, or the last store to a in ld's own block before ld.
func reachingStore(a *ssa.Alloc, ld *ssa.UnOp) *ssa.Store {
	sts := storesTo(a)
	if len(sts) == 1 {
		return sts[0]
	}
	b := ld.Block()
	var last *ssa.Store
	for _, in := range b.Instrs {
		if in == ld {
			break
		}
		if s, ok := in.(*ssa.Store); ok && s.Addr == a {
			last = s
		}
		// a call might write through a captured variable; only trust block-local stores when a does not escape to closures
	}
	if last != nil && !capturedByClosure(a) {
		return last
	}
	return nil
}

func capturedByClosure(a *ssa.Alloc) bool {
	if a.Referrers() == nil {
		return false
	}
	for _, r := range *a.Referrers() {
		if _, ok := r.(*ssa.MakeClosure); ok {
			return true
		}
	}
	return false
}

// closure bindings: FreeVar -> bound value in the parent (found through the MakeClosure).
func bindingOf(fv *ssa.FreeVar) ssa.Value {
	fn := fv.Parent()
	par := fn.Parent()
	if par == nil {
		return nil
	}
	idx := -1
	for i, f := range fn.FreeVars {
		if f == fv {
			idx = i
		}
	}
	if idx < 0 {
		return nil
	}
	for _, b := range par.Blocks {
		for _, in := range b.Instrs {
			if mc, ok := in.(*ssa.MakeClosure); ok && mc.Fn == fn && idx < len(mc.Bindings) {
				return mc.Bindings[idx]
			}
		}
	}
	return nil
}

// BindingOf returns the value bound to a free variable in the enclosing function.
func BindingOf(fv *ssa.FreeVar) ssa.Value { return bindingOf(fv) }

// Path renders the access path of a value or address: "recv.dlp.done", "p:ctx", "g:pkg.cc.lock",
// "recv.buf[*]". Address-of-field and value-of-field are deliberately conflated. Values with no
// stable root are rendered as "v:<fn>.<name>" (unique per SSA value).
func Path(v ssa.Value) string {
	return path(v, 0)
}

func path(v ssa.Value, depth int) string {
	if v == nil {
		return "<nil>"
	}
	if depth > 40 {
		return "v:deep"
	}
	v = Resolve(v)
	switch x := v.(type) {
	case *ssa.Parameter:
		fn := x.Parent()
		if fn.Signature.Recv() != nil && len(fn.Params) > 0 && fn.Params[0] == x {
			return "recv"
		}
		return "p:" + x.Name()
	case *ssa.FreeVar:
		if b := bindingOf(x); b != nil {
			return path(b, depth+1)
		}
		return "fv:" + x.Name()
	case *ssa.Global:
		return "g:" + x.Pkg.Pkg.Name() + "." + x.Name()
	case *ssa.FieldAddr:
		return path(x.X, depth+1) + "." + fieldName(x.X.Type(), x.Field)
	case *ssa.Field:
		return path(x.X, depth+1) + "." + fieldName(x.X.Type(), x.Field)
	case *ssa.IndexAddr:
		return path(x.X, depth+1) + "[" + idxStr(x.Index) + "]"
	case *ssa.Index:
		return path(x.X, depth+1) + "[" + idxStr(x.Index) + "]"
	case *ssa.UnOp:
		if x.Op == token.MUL {
			return path(x.X, depth+1)
		}
	case *ssa.Alloc:
		// an alloc holding a single stored value is that value
		if sts := storesTo(x); len(sts) == 1 && !isAggregate(x) {
			return path(sts[0].Val, depth+1)
		}
		return "a:" + vname(x)
	case *ssa.Extract:
		return path(x.Tuple, depth+1) + "#" + fmt.Sprint(x.Index)
	case *ssa.Const:
		if x.Value == nil {
			return "const:nil"
		}
		return "const:" + x.Value.ExactString()
	}
	return "v:" + vname(v)
}

func isAggregate(a *ssa.Alloc) bool {
	t := a.Type().(*types.Pointer).Elem().Underlying()
	switch t.(type) {
	case *types.Struct, *types.Array:
		return true
	}
	return false
}

func vname(v ssa.Value) string {
	fn := ""
	if in, ok := v.(ssa.Instruction); ok && in.Parent() != nil {
		fn = FnName(in.Parent()) + "."
	}
	return fn + v.Name()
}

func idxStr(v ssa.Value) string {
	if c, ok := v.(*ssa.Const); ok && c.Value != nil {
		return c.Value.ExactString()
	}
	return "*"
}

func fieldName(t types.Type, i int) string {
	if p, ok := t.Underlying().(*types.Pointer); ok {
		t = p.Elem()
	}
	if st, ok := t.Underlying().(*types.Struct); ok && i < st.NumFields() {
		return st.Field(i).Name()
	}
	return fmt.Sprintf("#%d", i)
}

// FieldOf returns the struct field object addressed/read by a FieldAddr or Field value, else nil.
func FieldOf(v ssa.Value) *types.Var {
	var t types.Type
	var i int
	switch x := v.(type) {
	case *ssa.FieldAddr:
		t, i = x.X.Type(), x.Field
	case *ssa.Field:
		t, i = x.X.Type(), x.Field
	default:
		return nil
	}
	if p, ok := t.Underlying().(*types.Pointer); ok {
		t = p.Elem()
	}
	if st, ok := t.Underlying().(*types.Struct); ok && i < st.NumFields() {
		return st.Field(i).Origin()
	}
	return nil
}

// LoadedField returns the field object when v is a load of a field address (or a Field), else nil.
func LoadedField(v ssa.Value) *types.Var {
	v = Resolve(v)
	if u, ok := v.(*ssa.UnOp); ok && u.Op == token.MUL {
		return FieldOf(u.X)
	}
	return FieldOf(v)
}

// ConstInt returns the integer value of a constant, if v is one.
func ConstInt(v ssa.Value) (int64, bool) {
	c, ok := v.(*ssa.Const)
	if !ok || c.Value == nil {
		return 0, false
	}
	if c.Value.Kind() != constant.Int {
		return 0, false
	}
	i, exact := constant.Int64Val(c.Value)
	return i, exact
}

// ConstVal returns the constant.Value of v, if it is a non-nil constant.
func ConstVal(v ssa.Value) constant.Value {
	if c, ok := v.(*ssa.Const); ok {
		return c.Value
	}
	return nil
}

// IsNilConst reports whether v is the nil constant (of any nillable type).
func IsNilConst(v ssa.Value) bool {
	c, ok := v.(*ssa.Const)
	return ok && c.Value == nil && !isZeroStructConst(c)
}

func isZeroStructConst(c *ssa.Const) bool {
	switch c.Type().Underlying().(type) {
	case *types.Struct, *types.Array, *types.TypeParam:
		return true
	}
	return false
}

// IsZeroConst reports whether v is a zero value constant (nil, 0, "", false, or the generic zero).
func IsZeroConst(v ssa.Value) bool {
	c, ok := v.(*ssa.Const)
	if !ok {
		return false
	}
	if c.Value == nil {
		return true
	}
	switch c.Value.Kind() {
	case constant.Int, constant.Float:
		return constant.Sign(c.Value) == 0
	case constant.String:
		return constant.StringVal(c.Value) == ""
	case constant.Bool:
		return !constant.BoolVal(c.Value)
	}
	return false
}

// ---------------------------------------------------------------------------
// conditions

// Cmp is a decoded comparison X op Y.
type Cmp struct {
	Op   token.Token
	X, Y ssa.Value
}

// AsCmp decodes v as a comparison (through Not: the operator is negated).
func AsCmp(v ssa.Value) (Cmp, bool) {
	neg := false
	for {
		if u, ok := v.(*ssa.UnOp); ok && u.Op == token.NOT {
			neg = !neg
			v = u.X
			continue
		}
		break
	}
	b, ok := v.(*ssa.BinOp)
	if !ok {
		return Cmp{}, false
	}
	op := b.Op
	switch op {
	case token.EQL, token.NEQ, token.LSS, token.LEQ, token.GTR, token.GEQ:
	default:
		return Cmp{}, false
	}
	if neg {
		op = NegateOp(op)
	}
	return Cmp{op, b.X, b.Y}, true
}

// NegateOp returns the comparison operator of the negated comparison.
func NegateOp(op token.Token) token.Token {
	switch op {
	case token.EQL:
		return token.NEQ
	case token.NEQ:
		return token.EQL
	case token.LSS:
		return token.GEQ
	case token.GEQ:
		return token.LSS
	case token.GTR:
		return token.LEQ
	case token.LEQ:
		return token.GTR
	}
	return op
}

// SwapOp returns the operator of the comparison with operands exchanged.
func SwapOp(op token.Token) token.Token {
	switch op {
	case token.LSS:
		return token.GTR
	case token.GTR:
		return token.LSS
	case token.LEQ:
		return token.GEQ
	case token.GEQ:
		return token.LEQ
	}
	return op
}

// Fact is a branch condition known to hold: Cond evaluated to True.
type Fact struct {
	Cond ssa.Value
	True bool
}

// StripNot removes negations from a fact's condition, flipping its truth value.
func (f Fact) StripNot() Fact {
	for {
		if u, ok := f.Cond.(*ssa.UnOp); ok && u.Op == token.NOT {
			f = Fact{u.X, !f.True}
			continue
		}
		return f
	}
}

// Cmp returns the comparison that is known true under the fact, if the condition is one.
func (f Fact) Cmp() (Cmp, bool) {
	f = f.StripNot()
	c, ok := AsCmp(f.Cond)
	if !ok {
		return Cmp{}, false
	}
	if !f.True {
		c.Op = NegateOp(c.Op)
	}
	return c, true
}

// EdgeFact returns the fact established by taking the CFG edge from -> to (nil if from does not
// end in a two-way branch or both successors are the same block).
func EdgeFact(from, to *ssa.BasicBlock) *Fact {
	if len(from.Instrs) == 0 {
		return nil
	}
	iff, ok := from.Instrs[len(from.Instrs)-1].(*ssa.If)
	if !ok || len(from.Succs) != 2 || from.Succs[0] == from.Succs[1] {
		return nil
	}
	if from.Succs[0] == to {
		return &Fact{iff.Cond, true}
	}
	if from.Succs[1] == to {
		return &Fact{iff.Cond, false}
	}
	return nil
}

// Facts returns the branch facts that hold on entry to block b: for every block d on b's dominator
// chain (b included) that has a single predecessor ending in an If, the corresponding edge fact.
// A fact whose condition is re-evaluated on a path from that edge to b cannot occur because the
// condition's definition dominates the edge and SSA values are immutable per activation.
func Facts(b *ssa.BasicBlock) []Fact { return factsRec(b, 0) }

func factsRec(b *ssa.BasicBlock, depth int) []Fact {
	var res []Fact
	for d := b; d != nil; d = d.Idom() {
		if len(d.Preds) == 1 {
			if f := EdgeFact(d.Preds[0], d); f != nil {
				res = append(res, *f)
				res = append(res, shortCircuitFacts(*f, depth)...)
			}
		}
	}
	return res
}

// shortCircuitFacts: the condition of a branch may be the value of a && b / a || b, which go/ssa represents as a phi
// over the constant of the deciding operand and the value of the last operand: phi[false, b] for a && b. When the phi is
// known to be true (false for ||) the last operand was evaluated and has that value, and everything that holds at the
// block which evaluated it holds as well (among it: the earlier operands).
func shortCircuitFacts(f Fact, depth int) []Fact {
	if depth > 4 {
		return nil
	}
	ff := f.StripNot()
	phi, ok := ff.Cond.(*ssa.Phi)
	if !ok {
		// "err == nil" for an error variable that is set to a sentinel on some branches and stays nil on one: knowing it is
		// nil tells which branch was taken
		if cm, isCmp := f.Cmp(); isCmp && cm.Op == token.EQL {
			x, y := cm.X, cm.Y
			if IsNilConst(x) {
				x, y = y, x
			}
			if p, isPhi := x.(*ssa.Phi); isPhi && IsNilConst(y) {
				nilIdx, others := -1, true
				for i, e := range p.Edges {
					if IsNilConst(e) {
						if nilIdx >= 0 {
							return nil
						}
						nilIdx = i
					} else if !knownNonNil(e) {
						others = false
					}
				}
				if nilIdx >= 0 && others {
					return factsRec(p.Block().Preds[nilIdx], depth+1)
				}
			}
		}
		return nil
	}
	// a flag assembled from constants only (t := false; if c { t = true }): the value tells which branch was taken
	{
		allConst, match := true, -1
		for i, e := range phi.Edges {
			c, isC := e.(*ssa.Const)
			if !isC || c.Value == nil || c.Value.Kind() != constant.Bool {
				allConst = false
				break
			}
			if constant.BoolVal(c.Value) == ff.True {
				if match >= 0 {
					match = -2
				} else if match == -1 {
					match = i
				}
			}
		}
		if allConst && match >= 0 {
			pred := phi.Block().Preds[match]
			res := factsRec(pred, depth+1)
			if ef := EdgeFact(pred, phi.Block()); ef != nil {
				res = append(res, *ef)
				res = append(res, shortCircuitFacts(*ef, depth+1)...)
			}
			return res
		}
	}
	idx := ShortCircuitOperand(phi, ff.True)
	if idx < 0 {
		// several edges carrying the same value, the rest the constant !truth ("ok" cleared on one path): the value still
		// has that truth, but which block evaluated it is not known
		var v ssa.Value
		for _, e := range phi.Edges {
			if c, isC := e.(*ssa.Const); isC && c.Value != nil && c.Value.Kind() == constant.Bool {
				if constant.BoolVal(c.Value) == ff.True {
					return nil
				}
				continue
			}
			if v != nil && v != e {
				return nil
			}
			v = e
		}
		if v == nil {
			return nil
		}
		return append([]Fact{{v, ff.True}}, shortCircuitFacts(Fact{v, ff.True}, depth+1)...)
	}
	res := []Fact{{phi.Edges[idx], ff.True}}
	res = append(res, shortCircuitFacts(Fact{phi.Edges[idx], ff.True}, depth+1)...)
	res = append(res, factsRec(phi.Block().Preds[idx], depth+1)...)
	return res
}

// ShortCircuitOperand returns the index of the only non-constant edge of a boolean phi all of whose other edges are the
// constant !truth (so that phi == truth implies this edge was taken), or -1.
func ShortCircuitOperand(phi *ssa.Phi, truth bool) int {
	idx := -1
	for i, e := range phi.Edges {
		if c, isC := e.(*ssa.Const); isC && c.Value != nil && c.Value.Kind() == constant.Bool {
			if constant.BoolVal(c.Value) == truth {
				return -1
			}
			continue
		}
		if idx >= 0 {
			return -1
		}
		idx = i
	}
	return idx
}

// FactsAt returns Facts of the block of an instruction.
func FactsAt(in ssa.Instruction) []Fact { return Facts(in.Block()) }

// HasFact reports whether some fact at b satisfies pred.
func HasFact(b *ssa.BasicBlock, pred func(Fact) bool) bool {
	for _, f := range Facts(b) {
		if pred(f) {
			return true
		}
	}
	return false
}

// Dominates reports whether instruction a dominates instruction b (same function).
func Dominates(a, b ssa.Instruction) bool {
	ba, bb := a.Block(), b.Block()
	if ba == bb {
		for _, in := range ba.Instrs {
			if in == a {
				return true
			}
			if in == b {
				return false
			}
		}
		return false
	}
	return ba.Dominates(bb)
}

// ---------------------------------------------------------------------------
// misc

// Instrs calls f for every instruction of fn.
func Instrs(fn *ssa.Function, f func(ssa.Instruction)) {
	for _, b := range fn.Blocks {
		for _, in := range b.Instrs {
			f(in)
		}
	}
}

// Calls returns every call-like instruction (call, go, defer) of fn.
func Calls(fn *ssa.Function) []ssa.CallInstruction {
	var res []ssa.CallInstruction
	Instrs(fn, func(in ssa.Instruction) {
		if c, ok := in.(ssa.CallInstruction); ok {
			res = append(res, c)
		}
	})
	return res
}

// Returns lists the Return instructions of fn, excluding the synthetic recover block.
func Returns(fn *ssa.Function) []*ssa.Return {
	var res []*ssa.Return
	for _, b := range fn.Blocks {
		if b == fn.Recover {
			continue
		}
		for _, in := range b.Instrs {
			if r, ok := in.(*ssa.Return); ok {
				res = append(res, r)
			}
		}
	}
	return res
}

// ResultValue returns the value returned at position i by ret, seeing through the defer spill
// (*slot = v; rundefers; t = *slot; return t).
func ResultValue(ret *ssa.Return, i int) ssa.Value {
	if i >= len(ret.Results) {
		return nil
	}
	v := ret.Results[i]
	if u, ok := v.(*ssa.UnOp); ok && u.Op == token.MUL {
		if a, ok := u.X.(*ssa.Alloc); ok {
			var last *ssa.Store
			for _, in := range ret.Block().Instrs {
				if in == ssa.Instruction(u) {
					break
				}
				if s, ok := in.(*ssa.Store); ok && s.Addr == a {
					last = s
				}
			}
			if last != nil {
				return last.Val
			}
		}
	}
	return v
}

// TypeString renders a type relative to nothing (fully qualified).
func TypeString(t types.Type) string { return types.TypeString(t, nil) }

// IsNamed reports whether t (after pointer stripping) is the named type pkgPath.name.
func IsNamed(t types.Type, pkgPath, name string) bool {
	if p, ok := t.(*types.Pointer); ok {
		t = p.Elem()
	}
	n, ok := t.(*types.Named)
	if !ok {
		return false
	}
	o := n.Obj()
	return o.Name() == name && o.Pkg() != nil && o.Pkg().Path() == pkgPath
}

// HasSuffixPath reports whether access path p ends with the field chain suffix (".a.b").
func HasSuffixPath(p, suffix string) bool { return strings.HasSuffix(p, suffix) }

// FieldRoot canonicalises the value of a struct field read from a local struct variable through whole-struct copies:
// in   a := p; a.Version = x; b := a; use(b.Key)   the value of b.Key is the field Key of p. The result names the
// root ("param p#Key", "t12#Key" for a local whose field is written directly, "call t7#Key" for a struct returned by a
// call). Local copies introduced by parameter passing - in the source or by the inlining normal form - do not change it.
// "" means: not a field of a local struct, or the copies disagree.
func FieldRoot(v ssa.Value) string {
	u, ok := v.(*ssa.UnOp)
	if !ok || u.Op != token.MUL {
		if f, isF := v.(*ssa.Field); isF {
			return structRoot(f.X, f.Field, map[ssa.Value]bool{})
		}
		return ""
	}
	fa, ok := u.X.(*ssa.FieldAddr)
	if !ok {
		return ""
	}
	r := cellFieldRoot(fa.X, fa.Field, map[ssa.Value]bool{})
	if r == "~" {
		return ""
	}
	return r
}

// cellFieldRoot: the root of field idx of the struct stored in the cell addr.
func cellFieldRoot(addr ssa.Value, idx int, seen map[ssa.Value]bool) string {
	al, ok := addr.(*ssa.Alloc)
	if !ok {
		if fv, isFV := addr.(*ssa.FreeVar); isFV {
			if b, isAl := bindingOf(fv).(*ssa.Alloc); isAl {
				return cellFieldRoot(b, idx, seen)
			}
		}
		return fmt.Sprintf("%s#%d", addr.Name(), idx)
	}
	if seen[al] {
		return "~" // a cycle contributes nothing
	}
	seen[al] = true
	refs := al.Referrers()
	if refs == nil {
		return ""
	}
	var roots []string
	for _, r := range *refs {
		switch x := r.(type) {
		case *ssa.Store:
			if x.Addr == ssa.Value(al) {
				roots = append(roots, structRoot(x.Val, idx, seen))
			}
		case *ssa.FieldAddr:
			if x.Field != idx || x.Referrers() == nil {
				continue
			}
			for _, rr := range *x.Referrers() {
				if st, isSt := rr.(*ssa.Store); isSt && st.Addr == ssa.Value(x) {
					// the field is written directly: this cell is a root of its own
					return fmt.Sprintf("%s#%d", al.Name(), idx)
				}
			}
		}
	}
	res := ""
	for _, r := range roots {
		if r == "~" {
			continue
		}
		if r == "" {
			return ""
		}
		if res == "" {
			res = r
		} else if res != r {
			return ""
		}
	}
	if res == "" {
		if len(roots) > 0 {
			return "~" // only copies of copies that are being resolved further up
		}
		return fmt.Sprintf("%s#%d", al.Name(), idx)
	}
	return res
}

// structRoot: the root of field idx of the struct VALUE v.
func structRoot(v ssa.Value, idx int, seen map[ssa.Value]bool) string {
	switch x := v.(type) {
	case *ssa.UnOp:
		if x.Op == token.MUL {
			if fa, ok := x.X.(*ssa.FieldAddr); ok {
				// a struct field of a struct: keep it symbolic
				return fmt.Sprintf("%s.%d#%d", fa.X.Name(), fa.Field, idx)
			}
			return cellFieldRoot(x.X, idx, seen)
		}
	case *ssa.Parameter:
		return fmt.Sprintf("param %s#%d", x.Name(), idx)
	case *ssa.Phi:
		res := ""
		for _, e := range x.Edges {
			r := structRoot(e, idx, seen)
			if r == "~" {
				continue
			}
			if r == "" || (res != "" && res != r) {
				return ""
			}
			res = r
		}
		return res
	case *ssa.Call:
		// T.Copy()-like methods keep every field: follow the receiver
		if len(x.Call.Args) == 1 && !x.Call.IsInvoke() {
			if cal := StaticCallee(x); cal != nil && cal.Name() == "Copy" && cal.Signature.Recv() != nil {
				return structRoot(x.Call.Args[0], idx, seen)
			}
		}
		return fmt.Sprintf("call %s#%d", x.Name(), idx)
	}
	return fmt.Sprintf("%s#%d", v.Name(), idx)
}

// ---------------------------------------------------------------------------
// exit points

// ExitPoint is one way a function returns: the values it returns and the block whose guard facts describe when.
// A source function written with early returns has one exit point per return statement. One written in single-exit
// style (result variables - named or local - assigned in the branches, one return at the end) has a return whose
// operands are phi nodes, or loads of result cells when a defer is present; it is split here into one exit point per
// incoming alternative, located at the block that selects the alternative. Rules that ask "under which guard is this
// result returned" therefore see the same thing for both styles.
type ExitPoint struct {
	Ret     *ssa.Return
	Results []ssa.Value
	Block   *ssa.BasicBlock // facts of this block (and Edge, if set) hold when these results are returned
	Edge    *ssa.BasicBlock // successor of Block on the way to the return (nil: Block is the return's own block)
}

// Facts are the guard facts that hold at the exit point.
func (e ExitPoint) Facts() []Fact {
	fs := Facts(e.Block)
	if e.Edge != nil {
		if ef := EdgeFact(e.Block, e.Edge); ef != nil {
			fs = append(fs, *ef)
			fs = append(fs, shortCircuitFacts(*ef, 0)...)
		}
	}
	return fs
}

// HasFact reports whether a fact satisfying pred holds at the exit point.
func (e ExitPoint) HasFact(pred func(Fact) bool) bool {
	for _, f := range e.Facts() {
		if pred(f) {
			return true
		}
	}
	return false
}

// Result returns result i (nil when out of range).
func (e ExitPoint) Result(i int) ssa.Value {
	if i < 0 || i >= len(e.Results) {
		return nil
	}
	return e.Results[i]
}

// ExitPoints lists the exit points of fn.
func ExitPoints(fn *ssa.Function) []ExitPoint {
	var res []ExitPoint
	for _, ret := range Returns(fn) {
		res = append(res, splitExit(ret)...)
	}
	return res
}

func splitExit(ret *ssa.Return) []ExitPoint {
	b := ret.Block()
	vals := make([]ssa.Value, len(ret.Results))
	for i := range ret.Results {
		vals[i] = ret.Results[i]
	}
	// 1. results loaded from result cells (defer spill, named results): the stores are the alternatives
	cells := make([]*ssa.Alloc, len(vals))
	anyCell := false
	hasRunDefers := false
	for _, in := range b.Instrs {
		if _, ok := in.(*ssa.RunDefers); ok {
			hasRunDefers = true
		}
	}
	sigRes := ret.Parent().Signature.Results()
	for i, v := range vals {
		if u, ok := v.(*ssa.UnOp); ok && u.Op == token.MUL {
			if a, ok := u.X.(*ssa.Alloc); ok && u.Block() == b {
				// a result cell: the spill slot of a function with defers, or a named result - not an ordinary local
				named := i < sigRes.Len() && sigRes.At(i).Name() != "" && sigRes.At(i).Name() == a.Comment
				if hasRunDefers || named {
					cells[i] = a
					anyCell = true
				}
			}
		}
	}
	if anyCell {
		// blocks that store to a result cell
		blocks := map[*ssa.BasicBlock]bool{}
		for _, a := range cells {
			if a == nil {
				continue
			}
			for _, st := range storesTo(a) {
				blocks[st.Block()] = true
			}
		}
		var out []ExitPoint
		for blk := range blocks {
			if !reaches(blk, b) {
				continue
			}
			rs := make([]ssa.Value, len(vals))
			for i, a := range cells {
				if a == nil {
					rs[i] = vals[i]
					continue
				}
				rs[i] = lastStoreUpTo(a, blk)
			}
			ep := ExitPoint{Ret: ret, Results: rs, Block: blk}
			out = append(out, expandPhis(ep, 0)...)
		}
		if len(out) > 0 {
			sortExitPoints(out)
			return out
		}
	}
	return expandPhis(ExitPoint{Ret: ret, Results: vals, Block: b}, 0)
}

// expandPhis splits an exit point whose results are phi nodes of its block into one exit point per predecessor.
func expandPhis(e ExitPoint, depth int) []ExitPoint {
	if depth > 4 {
		return []ExitPoint{e}
	}
	blk := e.Block
	var phiBlock *ssa.BasicBlock
	for _, v := range e.Results {
		if p, ok := v.(*ssa.Phi); ok && (p.Block() == blk || (e.Edge == nil && p.Block().Dominates(blk))) {
			// a loop-header phi is no alternative of the exit: its operands are the values of the previous iteration
			// and of the loop entry, and the facts on those edges say nothing about the iteration that returns
			isHeader := false
			for _, pr := range p.Block().Preds {
				if p.Block().Dominates(pr) {
					isHeader = true
				}
			}
			if isHeader {
				continue
			}
			phiBlock = p.Block()
			break
		}
	}
	if phiBlock == nil {
		return []ExitPoint{e}
	}
	// guards between the merge and the return ("if err != nil { return zero, err }") select among the alternatives
	nilness := map[ssa.Value]int{} // phi -> +1 known non-nil, -1 known nil at the return
	if phiBlock != blk {
		for _, f := range Facts(blk) {
			if cm, ok := f.Cmp(); ok && (cm.Op == token.EQL || cm.Op == token.NEQ) {
				x, y := cm.X, cm.Y
				if IsNilConst(x) {
					x, y = y, x
				}
				if p, isPhi := x.(*ssa.Phi); isPhi && IsNilConst(y) && p.Block() == phiBlock {
					if cm.Op == token.NEQ {
						nilness[p] = 1
					} else {
						nilness[p] = -1
					}
				}
			}
		}
	}
	// boolean flags merged in the same block ("found") and tested on the way to the return select alternatives too
	boolFacts := map[*ssa.Phi]bool{}
	if phiBlock != blk {
		for _, f := range Facts(blk) {
			ff := f.StripNot()
			if p, isPhi := ff.Cond.(*ssa.Phi); isPhi && p.Block() == phiBlock {
				boolFacts[p] = ff.True
			}
		}
	}
	var out []ExitPoint
	for j, pred := range phiBlock.Preds {
		rs := make([]ssa.Value, len(e.Results))
		feasible := true
		for p, truth := range boolFacts {
			if c, isC := p.Edges[j].(*ssa.Const); isC && c.Value != nil && c.Value.Kind() == constant.Bool && constant.BoolVal(c.Value) != truth {
				feasible = false
			}
		}
		// every phi of the merge takes the operand of the same edge: a nil test on a sibling of the results ("ws == nil"
		// where ws, err are assigned together) selects alternatives as well
		for pv, n := range nilness {
			ev := pv.(*ssa.Phi).Edges[j]
			switch n {
			case 1:
				if IsNilConst(ev) {
					feasible = false
				}
			case -1:
				if knownNonNil(ev) || derefBefore(ev, pred) {
					feasible = false
				}
			}
		}
		for i, v := range e.Results {
			if p, ok := v.(*ssa.Phi); ok && p.Block() == phiBlock {
				rs[i] = p.Edges[j]
			} else {
				rs[i] = v
			}
		}
		if !feasible {
			continue
		}
		ne := ExitPoint{Ret: e.Ret, Results: rs, Block: pred, Edge: phiBlock}
		// the predecessor may merge again (phi of phi)
		sub := ExitPoint{Ret: e.Ret, Results: rs, Block: pred}
		hasPhi := false
		for _, v := range rs {
			if p, ok := v.(*ssa.Phi); ok && (p.Block() == pred || p.Block().Dominates(pred)) {
				hasPhi = true
			}
		}
		if hasPhi {
			// an alternative that is itself a merge further up (result variables handed through several merges)
			subs := expandPhis(sub, depth+1)
			if len(subs) == 1 && subs[0].Block == pred && subs[0].Edge == nil {
				out = append(out, ne)
			} else {
				out = append(out, subs...)
			}
		} else {
			out = append(out, ne)
		}
	}
	return out
}

// onlyJumps: every block on the way from a to b (a dominates b) ends in an unconditional jump - b is just the tail of a.
func onlyJumps(a, b *ssa.BasicBlock) bool {
	for cur := a; cur != b; {
		if len(cur.Succs) != 1 {
			return false
		}
		cur = cur.Succs[0]
		if cur == a {
			return false
		}
	}
	return true
}

func dominatesStrict(a, b *ssa.BasicBlock) bool { return a != b && a.Dominates(b) }

func reaches(from, to *ssa.BasicBlock) bool {
	seen := map[*ssa.BasicBlock]bool{}
	var rec func(b *ssa.BasicBlock) bool
	rec = func(b *ssa.BasicBlock) bool {
		if b == to {
			return true
		}
		if seen[b] {
			return false
		}
		seen[b] = true
		for _, s := range b.Succs {
			if rec(s) {
				return true
			}
		}
		return false
	}
	return rec(from)
}

// lastStoreUpTo returns the value cell a holds at the end of block blk: the last store in blk, else the closest store
// in a dominator of blk, else nil.
func lastStoreUpTo(a *ssa.Alloc, blk *ssa.BasicBlock) ssa.Value {
	for d := blk; d != nil; d = d.Idom() {
		var last *ssa.Store
		for _, in := range d.Instrs {
			if st, ok := in.(*ssa.Store); ok && st.Addr == ssa.Value(a) {
				last = st
			}
		}
		if last != nil {
			return last.Val
		}
	}
	return nil
}

func sortExitPoints(l []ExitPoint) {
	sort.Slice(l, func(i, j int) bool { return l[i].Block.Index < l[j].Block.Index })
}

// knownNonNil: a load of a package-level error variable, the result of fmt.Errorf / errors.New, or a MakeInterface.
// derefBefore: the pointer v has been dereferenced (field address, load, store through it) by an instruction that every
// execution reaching the end of blk has passed - had v been nil, that execution would have panicked there.
func derefBefore(v ssa.Value, blk *ssa.BasicBlock) bool {
	if _, isPtr := v.Type().Underlying().(*types.Pointer); !isPtr || v.Referrers() == nil {
		return false
	}
	for _, r := range *v.Referrers() {
		ok := false
		switch x := r.(type) {
		case *ssa.FieldAddr:
			ok = x.X == v
		case *ssa.UnOp:
			ok = x.Op == token.MUL && x.X == v
		case *ssa.Store:
			ok = x.Addr == v
		}
		if ok && (r.Block() == blk || r.Block().Dominates(blk)) {
			return true
		}
	}
	return false
}

func knownNonNil(v ssa.Value) bool {
	switch x := v.(type) {
	case *ssa.Alloc:
		return true
	case *ssa.UnOp:
		if _, ok := x.X.(*ssa.Global); ok && x.Op == token.MUL {
			return true
		}
	case *ssa.Call:
		switch CalleeFullName(x) {
		case "fmt.Errorf", "errors.New":
			return true
		}
	case *ssa.MakeInterface:
		return true
	}
	return false
}

// AtomicCall decodes a call of package sync/atomic on a memory word, in either style: the functions
// (atomic.CompareAndSwapInt32(&x.f, 1, 0)) or the methods of the typed values (x.f.CompareAndSwap(1, 0) for an
// atomic.Int32 field). op is "Load", "Store", "Add", "Swap", "CompareAndSwap", "And" or "Or"; addr is the address of the
// word (for the typed values: the address of the atomic.IntNN field), args are the remaining arguments.
func AtomicCall(in ssa.Instruction) (op string, addr ssa.Value, args []ssa.Value, ok bool) {
	call, isCall := in.(ssa.CallInstruction)
	if !isCall {
		return "", nil, nil, false
	}
	name := CalleeFullName(call)
	cc := call.Common()
	ops := []string{"CompareAndSwap", "Load", "Store", "Add", "Swap", "And", "Or"}
	switch {
	case strings.HasPrefix(name, "sync/atomic."):
		rest := strings.TrimPrefix(name, "sync/atomic.")
		for _, o := range ops {
			if strings.HasPrefix(rest, o) && len(cc.Args) >= 1 {
				return o, cc.Args[0], cc.Args[1:], true
			}
		}
	case strings.HasPrefix(name, "(*sync/atomic."):
		i := strings.Index(name, ").")
		if i < 0 || strings.HasPrefix(name, "(*sync/atomic.Value)") {
			return "", nil, nil, false
		}
		rest := name[i+2:]
		for _, o := range ops {
			if rest == o && len(cc.Args) >= 1 {
				return o, cc.Args[0], atomicBoolArgs(name, cc.Args[1:]), true // atomic.Bool: true/false as 1/0 (v_atomic_bool.go)
			}
		}
	}
	return "", nil, nil, false
}
