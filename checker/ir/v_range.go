package ir

import (
	"go/token"

	"golang.org/x/tools/go/ssa"
)

// RangeHeader decodes the header block of go/ssa's range-over-slice loop ("for i := range s" / "for i, v := range s"):
//
//	i = phi(-1, next); next = i + 1; if next < len(s) goto body else done
//
// It returns the slice whose length bounds the loop, the index value the body uses (next) and the body block. The loop
// visits every index 0..len(s)-1 when the body always comes back to the header.
func RangeHeader(h *ssa.BasicBlock) (slice, idx ssa.Value, body *ssa.BasicBlock, ok bool) {
	if !isRangeHeader(h) {
		return nil, nil, nil, false
	}
	iff := h.Instrs[len(h.Instrs)-1].(*ssa.If)
	cmp := iff.Cond.(*ssa.BinOp)
	lc := cmp.Y.(*ssa.Call)
	return lc.Call.Args[0], cmp.X, h.Succs[0], true
}

// CountedHeader decodes the header of the three-clause spelling of the same loop:
//
//	i = phi(0, i+1); if i < len(s) goto body else done
//
// with the same results as RangeHeader (idx is the phi).
func CountedHeader(h *ssa.BasicBlock) (slice, idx ssa.Value, body *ssa.BasicBlock, ok bool) {
	if len(h.Succs) != 2 || len(h.Instrs) == 0 {
		return nil, nil, nil, false
	}
	iff, isIf := h.Instrs[len(h.Instrs)-1].(*ssa.If)
	if !isIf {
		return nil, nil, nil, false
	}
	cmp, isCmp := iff.Cond.(*ssa.BinOp)
	if !isCmp || cmp.Op != token.LSS {
		return nil, nil, nil, false
	}
	phi, isPhi := cmp.X.(*ssa.Phi)
	if !isPhi || phi.Block() != h || len(phi.Edges) != 2 {
		return nil, nil, nil, false
	}
	okInit, okStep := false, false
	for _, e := range phi.Edges {
		if k, isK := ConstInt(e); isK && k == 0 {
			okInit = true
			continue
		}
		if st, isBo := e.(*ssa.BinOp); isBo && st.Op == token.ADD && st.X == ssa.Value(phi) {
			if one, isC := ConstInt(st.Y); isC && one == 1 {
				okStep = true
			}
		}
	}
	lc, isCall := cmp.Y.(*ssa.Call)
	if !okInit || !okStep || !isCall {
		return nil, nil, nil, false
	}
	if b, isB := lc.Call.Value.(*ssa.Builtin); !isB || b.Name() != "len" || len(lc.Call.Args) != 1 {
		return nil, nil, nil, false
	}
	return lc.Call.Args[0], phi, h.Succs[0], true
}
