package ir

import (
	"go/constant"
	"go/types"
	"strings"

	"golang.org/x/tools/go/ssa"
)

// atomicBoolArgs: the arguments of a method of sync/atomic.Bool with the boolean constants written as the integer
// constants the rules compare a flag word with (true = 1, false = 0): a flag kept in an atomic.Bool is the same 0/1
// word as one kept in an int32 / atomic.Int32. Other arguments (and the arguments of other types' methods) are
// returned as they are.
func atomicBoolArgs(calleeName string, args []ssa.Value) []ssa.Value {
	if !strings.HasPrefix(calleeName, "(*sync/atomic.Bool).") {
		return args
	}
	res := make([]ssa.Value, len(args))
	for i, a := range args {
		res[i] = a
		if c, ok := a.(*ssa.Const); ok && c.Value != nil && c.Value.Kind() == constant.Bool {
			k := int64(0)
			if constant.BoolVal(c.Value) {
				k = 1
			}
			res[i] = ssa.NewConst(constant.MakeInt64(k), types.Typ[types.Int32])
		}
	}
	return res
}

// IsAtomicBoolLoad reports whether v is x.Load() of a sync/atomic.Bool; addr is the address of the Bool.
func IsAtomicBoolLoad(v ssa.Value) (addr ssa.Value, ok bool) {
	call, isCall := v.(*ssa.Call)
	if !isCall || CalleeFullName(call) != "(*sync/atomic.Bool).Load" || len(call.Call.Args) != 1 {
		return nil, false
	}
	return call.Call.Args[0], true
}
