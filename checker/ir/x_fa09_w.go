package ir

import (
	"go/token"

	"golang.org/x/tools/go/ssa"
)

// commaOkZeroW: the value result of a comma-ok operation - a map read "v, ok := m[k]", a type assertion
// "v, ok := x.(T)", a receive "v, ok := <-c" - is the zero value of its type whenever the ok result is false (language
// specification). For a nil-able type that zero value is nil. The function reports true when x is such a value result,
// its type is nil-able and the path has decided the ok result of the SAME operation to be false (both results are
// extracted from one tuple, which lives in one block: enter() forgets both together when the block is run again, so the
// two facts always talk about the same execution of the operation).
//
// This is what lets a path query read "ch, ok := table[k]; if !ok { table[k] = make(...) }; return ch" - a helper that
// tells its caller "you registered" by handing out the nil it read from the absent slot - like the form that keeps the
// flag: behind the registration the handed-out channel is nil, the arm "somebody else creates: wait" is not taken.
func (s *FlowState) commaOkZeroW(x *ssa.Extract) bool {
	if x.Index != 0 || !nillable(x.Type()) {
		return false
	}
	switch t := x.Tuple.(type) {
	case *ssa.Lookup:
		if !t.CommaOk {
			return false
		}
	case *ssa.TypeAssert:
		if !t.CommaOk {
			return false
		}
	case *ssa.UnOp:
		if t.Op != token.ARROW || !t.CommaOk {
			return false
		}
	default:
		return false
	}
	refs := x.Tuple.Referrers()
	if refs == nil {
		return false
	}
	for _, ref := range *refs {
		if ok, isEx := ref.(*ssa.Extract); isEx && ok.Index == 1 && ok.Tuple == x.Tuple {
			if a, known := s.vals[ok]; known && a.k == absBool && !a.b {
				return true
			}
		}
	}
	return false
}
