package ir

import (
	"fmt"
	"go/constant"
	"go/token"
	"go/types"
	"sort"
	"strings"

	"golang.org/x/tools/go/ssa"
)

// ---------------------------------------------------------------------------
// Flow: a path query with a per-path abstract valuation
//
// Flow answers the same question as Query ("is there a path from the start to a Target that passes no Block
// instruction and no BlockEdge") but prunes more of the paths no execution can take. Along every path it carries what
// is known about SSA values in a small abstract domain - a boolean, an integer constant, nil, non-nil - with
//   - phi nodes bound to the operand the incoming edge selects (so a flag variable that is set to true in one branch
//     and false in the others, or a pointer/channel variable that is nil until one branch assigns it, is known after
//     the merge),
//   - negations and (in)equalities folded (x == nil for a value known nil / non-nil, comparisons of known booleans
//     and integers),
//   - what a taken branch tells about its condition propagated to the operands (x == nil taken: x is nil; a phi
//     condition: the operand it was bound to on this path),
//   - loads of a cell the function never stores to identified with each other.
//
// The code shapes this makes equivalent: "if found {...}; if !registered { wait; continue }; create" with flags or with
// the state kept in the nil-ness of a variable ("for mine == nil {...}"), results of an inlined helper delivered through
// result variables, early-return versus if/else nesting. Nothing is executed.
type Flow struct {
	Fn        *ssa.Function
	From      ssa.Instruction                     // start after this instruction; nil = entry
	FromBlock *ssa.BasicBlock                     // alternative: start at the head of this block
	Assume    []Fact                              // facts assumed at the start (after From has executed)
	Block     func(ssa.Instruction) bool          // the path may not pass these
	BlockEdge func(from, to *ssa.BasicBlock) bool // the path may not take these edges
	Target    func(ssa.Instruction) bool          // where the path must arrive
	// TargetAt, when set, replaces Target: it also sees the valuation of the arriving path.
	TargetAt  func(in ssa.Instruction, st *FlowState) bool
	MaxStates int
}

type absKind uint8

const (
	absUnknown absKind = iota
	absBool
	absInt
	absNil
	absNonNil
)

type absVal struct {
	k absKind
	b bool
	n int64
}

func (a absVal) String() string {
	switch a.k {
	case absBool:
		return fmt.Sprint(a.b)
	case absInt:
		return fmt.Sprint(a.n)
	case absNil:
		return "nil"
	case absNonNil:
		return "nonnil"
	}
	return "?"
}

// FlowState is the valuation of one path.
type FlowState struct {
	vals   map[ssa.Value]absVal
	alias  map[*ssa.Phi]ssa.Value // phi -> the operand this path selected
	stored map[ssa.Value]bool     // cells with a store in the function (or whose address escapes into a call)
}

func (s *FlowState) clone() *FlowState {
	n := &FlowState{vals: make(map[ssa.Value]absVal, len(s.vals)+2), alias: make(map[*ssa.Phi]ssa.Value, len(s.alias)+1), stored: s.stored}
	for k, v := range s.vals {
		n.vals[k] = v
	}
	for k, v := range s.alias {
		n.alias[k] = v
	}
	return n
}

func (s *FlowState) encode() string {
	ks := make([]string, 0, len(s.vals)+len(s.alias))
	for k, v := range s.vals {
		ks = append(ks, k.Name()+"="+v.String())
	}
	for k, v := range s.alias {
		ks = append(ks, k.Name()+":"+v.Name())
	}
	sort.Strings(ks)
	return strings.Join(ks, ",")
}

// KnownBool reports the truth of v on this path, when the path decides it.
func (s *FlowState) KnownBool(v ssa.Value) (val, ok bool) {
	a := s.eval(v, 0)
	return a.b, a.k == absBool
}

// KnownNil reports whether v is known nil (true) or known non-nil (false) on this path.
func (s *FlowState) KnownNil(v ssa.Value) (isNil, ok bool) {
	a := s.eval(v, 0)
	switch a.k {
	case absNil:
		return true, true
	case absNonNil:
		return false, true
	}
	return false, false
}

func nillable(t types.Type) bool {
	switch t.Underlying().(type) {
	case *types.Pointer, *types.Chan, *types.Map, *types.Slice, *types.Signature, *types.Interface:
		return true
	}
	return false
}

func (s *FlowState) cell(addr ssa.Value) ssa.Value {
	switch a := addr.(type) {
	case *ssa.Alloc, *ssa.FreeVar, *ssa.Global:
		if !s.stored[a] {
			return a
		}
	}
	return nil
}

func (s *FlowState) eval(v ssa.Value, depth int) absVal {
	if v == nil || depth > 12 {
		return absVal{}
	}
	switch x := v.(type) {
	case *ssa.Const:
		if x.Value == nil {
			if nillable(x.Type()) {
				return absVal{k: absNil}
			}
			return absVal{}
		}
		switch x.Value.Kind() {
		case constant.Bool:
			return absVal{k: absBool, b: constant.BoolVal(x.Value)}
		case constant.Int:
			if n, exact := constant.Int64Val(x.Value); exact {
				return absVal{k: absInt, n: n}
			}
		}
		return absVal{}
	case *ssa.UnOp:
		switch x.Op {
		case token.NOT:
			if a := s.eval(x.X, depth+1); a.k == absBool {
				return absVal{k: absBool, b: !a.b}
			}
		case token.MUL:
			if c := s.cell(x.X); c != nil {
				if a, ok := s.vals[c]; ok {
					return a
				}
				return absVal{}
			}
		}
	case *ssa.BinOp:
		a, b := s.eval(x.X, depth+1), s.eval(x.Y, depth+1)
		switch x.Op {
		case token.EQL, token.NEQ:
			eq, known := false, false
			switch {
			case a.k == absNil && b.k == absNil:
				eq, known = true, true
			case (a.k == absNil && b.k == absNonNil) || (a.k == absNonNil && b.k == absNil):
				eq, known = false, true
			case a.k == absBool && b.k == absBool:
				eq, known = a.b == b.b, true
			case a.k == absInt && b.k == absInt:
				eq, known = a.n == b.n, true
			}
			if known {
				return absVal{k: absBool, b: eq == (x.Op == token.EQL)}
			}
		case token.LSS, token.LEQ, token.GTR, token.GEQ:
			if a.k == absInt && b.k == absInt {
				r := false
				switch x.Op {
				case token.LSS:
					r = a.n < b.n
				case token.LEQ:
					r = a.n <= b.n
				case token.GTR:
					r = a.n > b.n
				case token.GEQ:
					r = a.n >= b.n
				}
				return absVal{k: absBool, b: r}
			}
		}
	case *ssa.ChangeType:
		return s.eval(x.X, depth+1)
	case *ssa.ChangeInterface:
		return s.eval(x.X, depth+1)
	case *ssa.MakeInterface, *ssa.MakeChan, *ssa.MakeMap, *ssa.MakeSlice, *ssa.MakeClosure, *ssa.Alloc, *ssa.FieldAddr, *ssa.IndexAddr, *ssa.Function, *ssa.Global:
		return absVal{k: absNonNil}
	case *ssa.Call:
		switch CalleeFullName(x) {
		case "fmt.Errorf", "errors.New":
			return absVal{k: absNonNil}
		}
	case *ssa.Extract:
		// the value result of a failed comma-ok operation is the zero value (x_fa09_w.go)
		if _, explicit := s.vals[v]; !explicit && s.commaOkZeroW(x) {
			return absVal{k: absNil}
		}
	}
	if a, ok := s.vals[v]; ok {
		return a
	}
	return absVal{}
}

// assume records that v has the truth value t (a branch on v was taken that way) and what follows for its operands.
func (s *FlowState) assume(v ssa.Value, t bool, depth int) {
	if v == nil || depth > 12 {
		return
	}
	switch x := v.(type) {
	case *ssa.Const:
		return
	case *ssa.UnOp:
		switch x.Op {
		case token.NOT:
			s.vals[v] = absVal{k: absBool, b: t}
			s.assume(x.X, !t, depth+1)
			return
		case token.MUL:
			if c := s.cell(x.X); c != nil {
				s.vals[c] = absVal{k: absBool, b: t}
				return
			}
		}
	case *ssa.Phi:
		s.vals[v] = absVal{k: absBool, b: t}
		if a, ok := s.alias[x]; ok {
			s.assume(a, t, depth+1)
		}
		return
	case *ssa.BinOp:
		s.vals[v] = absVal{k: absBool, b: t}
		if x.Op == token.EQL || x.Op == token.NEQ {
			eq := (x.Op == token.EQL) == t
			a, b := s.eval(x.X, depth+1), s.eval(x.Y, depth+1)
			switch {
			case a.k == absNil && b.k == absUnknown:
				s.setNil(x.Y, eq, depth+1)
			case b.k == absNil && a.k == absUnknown:
				s.setNil(x.X, eq, depth+1)
			case a.k == absBool && b.k == absUnknown:
				s.assume(x.Y, a.b == eq, depth+1)
			case b.k == absBool && a.k == absUnknown:
				s.assume(x.X, b.b == eq, depth+1)
			case a.k == absInt && b.k == absUnknown && eq:
				s.set(x.Y, a, depth+1)
			case b.k == absInt && a.k == absUnknown && eq:
				s.set(x.X, b, depth+1)
			}
		}
		return
	}
	s.vals[v] = absVal{k: absBool, b: t}
}

func (s *FlowState) setNil(v ssa.Value, isNil bool, depth int) {
	a := absVal{k: absNonNil}
	if isNil {
		a = absVal{k: absNil}
	}
	s.set(v, a, depth)
}

func (s *FlowState) set(v ssa.Value, a absVal, depth int) {
	if v == nil || depth > 12 {
		return
	}
	switch x := v.(type) {
	case *ssa.Const:
		return
	case *ssa.ChangeType:
		s.set(x.X, a, depth+1)
		return
	case *ssa.UnOp:
		if x.Op == token.MUL {
			if c := s.cell(x.X); c != nil {
				s.vals[c] = a
				return
			}
		}
	case *ssa.Phi:
		if al, ok := s.alias[x]; ok {
			s.set(al, a, depth+1)
		}
	}
	s.vals[v] = a
}

// enter makes the state that holds at the head of block b when it is entered from prev: phis are bound to the selected
// operands, what was known about the values b defines (they are computed again) is forgotten.
func (s *FlowState) enter(b, prev *ssa.BasicBlock) *FlowState {
	n := s.clone()
	type bind struct {
		p *ssa.Phi
		a absVal
		e ssa.Value
	}
	var binds []bind
	if prev != nil {
		j := -1
		for i, p := range b.Preds {
			if p == prev {
				j = i
				break
			}
		}
		if j >= 0 {
			for _, in := range b.Instrs {
				phi, ok := in.(*ssa.Phi)
				if !ok {
					break
				}
				binds = append(binds, bind{phi, s.eval(phi.Edges[j], 0), phi.Edges[j]})
			}
		}
	}
	for k := range n.vals {
		if in, ok := k.(ssa.Instruction); ok && in.Block() == b {
			delete(n.vals, k)
		}
	}
	for p, a := range n.alias {
		if p.Block() == b {
			delete(n.alias, p)
			continue
		}
		if in, ok := a.(ssa.Instruction); ok && in.Block() == b {
			delete(n.alias, p)
		}
	}
	for _, bd := range binds {
		if bd.a.k != absUnknown {
			n.vals[bd.p] = bd.a
		}
		if _, isConst := bd.e.(*ssa.Const); !isConst {
			// an operand defined in b itself is the value of the previous iteration: it is being recomputed
			if in, ok := bd.e.(ssa.Instruction); !ok || in.Block() != b {
				n.alias[bd.p] = bd.e
			}
		}
	}
	return n
}

func newFlowState(fn *ssa.Function) *FlowState {
	stored := map[ssa.Value]bool{}
	Instrs(fn, func(in ssa.Instruction) {
		if st, ok := in.(*ssa.Store); ok {
			if c := cellOf(st.Addr); c != nil {
				stored[c] = true
			}
		}
		if call, ok := in.(ssa.CallInstruction); ok {
			for _, a := range call.Common().Args {
				if c := cellOf(a); c != nil {
					stored[c] = true
				}
			}
		}
		if mc, ok := in.(*ssa.MakeClosure); ok {
			// a captured variable may be written by the closure
			for _, b := range mc.Bindings {
				if c := cellOf(b); c != nil && len(storesTo(c)) > 0 {
					stored[c] = true
				}
			}
		}
	})
	// a free variable of fn itself may be written by the enclosing function or a sibling closure at any time
	for _, fv := range fn.FreeVars {
		if b := bindingOf(fv); b != nil {
			if len(storesTo(b)) > 1 {
				stored[fv] = true
			}
		} else {
			stored[fv] = true
		}
	}
	return &FlowState{vals: map[ssa.Value]absVal{}, alias: map[*ssa.Phi]ssa.Value{}, stored: stored}
}

// Find runs the query: (witness, nil) when a path exists, (nil, nil) when none exists, (nil, ErrUndecided) when the state
// bound is hit.
func (q Flow) Find() (*Witness, error) {
	fn := q.Fn
	if fn == nil || len(fn.Blocks) == 0 {
		return nil, nil
	}
	max := q.MaxStates
	if max == 0 {
		max = 200000
	}
	type item struct {
		blk   *ssa.BasicBlock
		start int
		st    *FlowState
		trail []int
	}
	st0 := newFlowState(fn)
	seed := func(b *ssa.BasicBlock) {
		// the guard facts of the start block hold at the start (outermost first, so that the closest one wins)
		fs := Facts(b)
		for i := len(fs) - 1; i >= 0; i-- {
			f := fs[i]
			if a := st0.eval(f.Cond, 0); a.k == absBool {
				continue
			}
			st0.assume(f.Cond, f.True, 0)
		}
	}
	var start item
	switch {
	case q.From != nil:
		b := q.From.Block()
		idx := -1
		for i, in := range b.Instrs {
			if in == q.From {
				idx = i
			}
		}
		seed(b)
		start = item{blk: b, start: idx + 1, st: st0, trail: []int{b.Index}}
	case q.FromBlock != nil:
		seed(q.FromBlock)
		start = item{blk: q.FromBlock, st: st0, trail: []int{q.FromBlock.Index}}
	default:
		start = item{blk: fn.Blocks[0], st: st0, trail: []int{0}}
	}
	for _, f := range q.Assume {
		if a := st0.eval(f.Cond, 0); a.k == absBool {
			if a.b != f.True {
				return nil, nil // the assumption contradicts what is known at the start: no such path
			}
			continue
		}
		st0.assume(f.Cond, f.True, 0)
	}
	seen := map[string]bool{}
	work := []item{start}
	states := 0
	for len(work) > 0 {
		it := work[len(work)-1]
		work = work[:len(work)-1]
		states++
		if states > max {
			return nil, ErrUndecided
		}
		blocked := false
		for i := it.start; i < len(it.blk.Instrs); i++ {
			in := it.blk.Instrs[i]
			if q.TargetAt != nil {
				if q.TargetAt(in, it.st) {
					return &Witness{Blocks: it.trail, End: in}, nil
				}
			} else if q.Target != nil && q.Target(in) {
				return &Witness{Blocks: it.trail, End: in}, nil
			}
			if q.Block != nil && q.Block(in) {
				blocked = true
				break
			}
		}
		if blocked {
			continue
		}
		var cond ssa.Value
		if n := len(it.blk.Instrs); n > 0 && len(it.blk.Succs) == 2 && it.blk.Succs[0] != it.blk.Succs[1] {
			if iff, ok := it.blk.Instrs[n-1].(*ssa.If); ok {
				cond = iff.Cond
			}
		}
		for si, s := range it.blk.Succs {
			if q.BlockEdge != nil && q.BlockEdge(it.blk, s) {
				continue
			}
			st := it.st
			if cond != nil {
				taken := si == 0
				if a := st.eval(cond, 0); a.k == absBool {
					if a.b != taken {
						continue
					}
				} else {
					st = st.clone()
					st.assume(cond, taken, 0)
				}
			}
			ns := st.enter(s, it.blk)
			key := fmt.Sprintf("%d|%s", s.Index, ns.encode())
			if seen[key] {
				continue
			}
			seen[key] = true
			tr := append(append([]int{}, it.trail...), s.Index)
			if len(tr) > 64 {
				tr = tr[len(tr)-64:]
			}
			work = append(work, item{blk: s, st: ns, trail: tr})
		}
	}
	return nil, nil
}

// ---------------------------------------------------------------------------
// value roots through copies

// CopyRoots follows a value back through everything that only copies or selects it - loads, field selections, type
// changes, phi alternatives, local variables (every store into them) and captured variables - and returns the values
// it can stem from: results of calls, tuple extractions, parameters, constants, composite values built field by field
// (the local cell itself). The field path is not part of the answer; use it to ask "from which call result is this
// value read", not "which field".
func CopyRoots(v ssa.Value) []ssa.Value {
	seen := map[ssa.Value]bool{}
	var res []ssa.Value
	var rec func(v ssa.Value, d int)
	rec = func(v ssa.Value, d int) {
		if v == nil || seen[v] || d > 64 {
			return
		}
		seen[v] = true
		switch x := v.(type) {
		case *ssa.UnOp:
			if x.Op == token.MUL {
				rec(x.X, d+1)
				return
			}
		case *ssa.FieldAddr:
			rec(x.X, d+1)
			return
		case *ssa.Field:
			rec(x.X, d+1)
			return
		case *ssa.ChangeType:
			rec(x.X, d+1)
			return
		case *ssa.MakeInterface:
			rec(x.X, d+1)
			return
		case *ssa.Phi:
			for _, e := range x.Edges {
				rec(e, d+1)
			}
			return
		case *ssa.FreeVar:
			if b := bindingOf(x); b != nil {
				rec(b, d+1)
				return
			}
		case *ssa.Alloc:
			whole := storesTo(x)
			fieldWritten := false
			if refs := x.Referrers(); refs != nil {
				for _, r := range *refs {
					if fa, ok := r.(*ssa.FieldAddr); ok && fa.Referrers() != nil {
						for _, rr := range *fa.Referrers() {
							if st, isSt := rr.(*ssa.Store); isSt && st.Addr == ssa.Value(fa) {
								fieldWritten = true
							}
						}
					}
				}
			}
			if len(whole) > 0 && !fieldWritten {
				for _, st := range whole {
					rec(st.Val, d+1)
				}
				return
			}
		}
		res = append(res, v)
	}
	rec(v, 0)
	return res
}
