package ir

import (
	"go/token"
	"go/types"

	"golang.org/x/tools/go/ssa"
)

// ---------------------------------------------------------------------------
// tables of function values evaluated by a loop
//
//	rules := []func(..) bool{ f, func(..) bool {..}, .. }
//	for _, r := range rules { if r(x) { return } }
//	<here every element of rules was called on x and returned false>
//
// Two independent structural facts are established, nothing is executed:
//   - RangeAllCalls: the shape of the loop (go/ssa's range-over-slice loop whose "done" block can only be entered from
//     the exhausted header, and whose back edge cannot be reached without passing one outcome of the element call);
//   - FuncTable: the content of the slice (a slice literal of function values kept in a variable that is assigned once,
//     before any reader can run, and that nothing but reads ever touches).

// RangeAll describes a range loop over a slice of function values whose every iteration calls the element and goes
// round only on one outcome of that call.
type RangeAll struct {
	Header  *ssa.BasicBlock
	Done    *ssa.BasicBlock // entered only from Header, when the slice is exhausted
	Slice   ssa.Value       // the slice value ranged over
	Call    *ssa.Call       // the call of the element (its Call.Value is the load of slice[i])
	Outcome bool            // what the call returned on every iteration that went round
}

// RangeAllCalls lists the loops of fn of that shape. For an instruction dominated by Done, every element of Slice was
// called (with the operands of Call) and returned Outcome: the index is the range index (no element is skipped), Done
// has the header as its only predecessor (no break arrives there), and with the edge of the other outcome removed the
// header cannot be reached again from the body.
func RangeAllCalls(fn *ssa.Function) []RangeAll {
	var res []RangeAll
	for _, h := range fn.Blocks {
		if !isRangeHeader(h) {
			continue
		}
		body, done := h.Succs[0], h.Succs[1]
		if len(done.Preds) != 1 || done.Preds[0] != h || done == body {
			continue
		}
		iff := h.Instrs[len(h.Instrs)-1].(*ssa.If)
		cmp := iff.Cond.(*ssa.BinOp)
		idx := cmp.X
		lenCall := cmp.Y.(*ssa.Call)
		slice := lenCall.Call.Args[0]
		// the length is that of the slice value the elements are read from, taken outside of the loop
		if lenCall.Block() == h || !lenCall.Block().Dominates(h) {
			continue
		}
		inLoop := map[*ssa.BasicBlock]bool{}
		var dfs func(b *ssa.BasicBlock)
		dfs = func(b *ssa.BasicBlock) {
			if b == h || inLoop[b] {
				return
			}
			inLoop[b] = true
			for _, s := range b.Succs {
				dfs(s)
			}
		}
		dfs(body)
		if inLoop[lenCall.Block()] {
			continue
		}
		for _, b := range fn.Blocks { // deterministic order
			if !inLoop[b] || !reaches(b, h) || len(b.Instrs) == 0 {
				continue
			}
			last, isIf := b.Instrs[len(b.Instrs)-1].(*ssa.If)
			if !isIf {
				continue
			}
			cond, neg := last.Cond, false
			for {
				u, isNot := cond.(*ssa.UnOp)
				if !isNot || u.Op != token.NOT {
					break
				}
				cond, neg = u.X, !neg
			}
			call, isCall := cond.(*ssa.Call)
			if !isCall || call.Call.IsInvoke() || !inLoop[call.Block()] {
				continue
			}
			ld, isLoad := call.Call.Value.(*ssa.UnOp)
			if !isLoad || ld.Op != token.MUL {
				continue
			}
			ia, isIA := ld.X.(*ssa.IndexAddr)
			if !isIA || ia.X != slice || ia.Index != idx {
				continue
			}
			for si, edgeTruth := range []bool{true, false} {
				// with this edge removed, can the header still be reached from the body?
				if !reachesAvoidingEdge(body, h, b, b.Succs[si], h) {
					// no: every iteration that goes round leaves b over this edge
					res = append(res, RangeAll{Header: h, Done: done, Slice: slice, Call: call, Outcome: edgeTruth != neg})
				}
			}
		}
	}
	return res
}

// reachesAvoidingEdge: is there a CFG path from `from` to `to` that does not take the edge ef->et (and does not pass
// through `stop` before arriving; stop may equal to).
func reachesAvoidingEdge(from, to, ef, et, stop *ssa.BasicBlock) bool {
	seen := map[*ssa.BasicBlock]bool{}
	var rec func(b *ssa.BasicBlock) bool
	rec = func(b *ssa.BasicBlock) bool {
		if b == to {
			return true
		}
		if seen[b] || b == stop {
			return false
		}
		seen[b] = true
		for _, s := range b.Succs {
			if b == ef && s == et {
				continue
			}
			if rec(s) {
				return true
			}
		}
		return false
	}
	return rec(from)
}

// FuncTable returns the elements of the slice value `slice` when it is provably a fixed table of function values: a load
// of a variable (a local of the function, or a variable of the enclosing function captured by the closure the load
// sits in) that
//   - is assigned exactly once, a slice literal whose every element is a function or a closure (each element slot of
//     the backing array is stored exactly once, at a constant index, and the array is used for nothing else),
//   - is assigned before a reader can run: the store dominates the load (local) / the creation of every closure that
//     captures the variable,
//   - is only ever read: in the function and in every closure capturing it, the variable is loaded and the loaded slice
//     is used for len, for ranging and for reading elements - never re-sliced, appended to, passed on, or stored
//     through.
//
// The elements are *ssa.Function or *ssa.MakeClosure values, in table order. nil when any of this is not established.
func FuncTable(slice ssa.Value) []ssa.Value {
	if sl, isLit := slice.(*ssa.Slice); isLit {
		// the literal itself, not kept in a variable: a value nothing but reads uses
		if !readOnlySliceY(sl) {
			return nil
		}
		return sliceLiteralFuncsY(sl, sl)
	}
	ld, ok := slice.(*ssa.UnOp)
	if !ok || ld.Op != token.MUL {
		return nil
	}
	var cell *ssa.Alloc
	switch a := ld.X.(type) {
	case *ssa.Alloc:
		cell = a
	case *ssa.FreeVar:
		cell, _ = bindingOf(a).(*ssa.Alloc)
	}
	if cell == nil || cell.Referrers() == nil {
		return nil
	}
	var store *ssa.Store
	var closures []*ssa.MakeClosure
	for _, r := range *cell.Referrers() {
		switch y := r.(type) {
		case *ssa.DebugRef:
		case *ssa.Store:
			if y.Addr != ssa.Value(cell) || store != nil {
				return nil
			}
			store = y
		case *ssa.UnOp:
			if y.Op != token.MUL || !readOnlySliceY(y) {
				return nil
			}
		case *ssa.MakeClosure:
			closures = append(closures, y)
		default:
			return nil
		}
	}
	if store == nil {
		return nil
	}
	for _, mc := range closures {
		if !Dominates(store, mc) {
			return nil
		}
		cf, isFn := mc.Fn.(*ssa.Function)
		if !isFn {
			return nil
		}
		for i, b := range mc.Bindings {
			if b != ssa.Value(cell) {
				continue
			}
			if i >= len(cf.FreeVars) || cf.FreeVars[i].Referrers() == nil {
				return nil
			}
			for _, r := range *cf.FreeVars[i].Referrers() {
				switch y := r.(type) {
				case *ssa.DebugRef:
				case *ssa.UnOp:
					if y.Op != token.MUL || !readOnlySliceY(y) {
						return nil
					}
				default:
					return nil // handed on to a nested closure, address taken, stored to
				}
			}
		}
	}
	if _, local := ld.X.(*ssa.Alloc); local && !Dominates(store, ld) {
		return nil
	}
	sl, ok := store.Val.(*ssa.Slice)
	if !ok || sl.Referrers() == nil {
		return nil
	}
	for _, r := range *sl.Referrers() { // the literal goes into the variable and nowhere else
		switch r.(type) {
		case *ssa.DebugRef:
		default:
			if r != ssa.Instruction(store) {
				return nil
			}
		}
	}
	return sliceLiteralFuncsY(sl, store)
}

// readOnlySliceY: the slice value v is used for len/cap, for ranging and for reading elements only.
func readOnlySliceY(v ssa.Value) bool {
	if v.Referrers() == nil {
		return false
	}
	for _, r := range *v.Referrers() {
		switch y := r.(type) {
		case *ssa.DebugRef:
		case *ssa.Call:
			b, isB := y.Call.Value.(*ssa.Builtin)
			if !isB || (b.Name() != "len" && b.Name() != "cap") {
				return false
			}
		case *ssa.IndexAddr:
			if y.X != v || y.Referrers() == nil {
				return false
			}
			for _, r2 := range *y.Referrers() {
				switch z := r2.(type) {
				case *ssa.DebugRef:
				case *ssa.UnOp:
					if z.Op != token.MUL {
						return false
					}
				default:
					return false
				}
			}
		default:
			return false
		}
	}
	return true
}

// sliceLiteralFuncsY: sl is arr[:] of a fresh array every slot of which is stored exactly once, at a constant index,
// with a function or closure, before `before`; the array is used for nothing else.
func sliceLiteralFuncsY(sl *ssa.Slice, before ssa.Instruction) []ssa.Value {
	if sl.Low != nil || sl.High != nil || sl.Max != nil {
		return nil
	}
	arr, ok := sl.X.(*ssa.Alloc)
	if !ok || arr.Referrers() == nil {
		return nil
	}
	n := arrayLenY(arr)
	if n <= 0 {
		return nil
	}
	elems := make([]ssa.Value, n)
	for _, r := range *arr.Referrers() {
		switch y := r.(type) {
		case *ssa.DebugRef:
		case *ssa.Slice:
			if y != sl {
				return nil
			}
		case *ssa.IndexAddr:
			k, isC := ConstInt(y.Index)
			if !isC || k < 0 || int(k) >= n || elems[k] != nil || y.Referrers() == nil {
				return nil
			}
			var val ssa.Value
			for _, r2 := range *y.Referrers() {
				switch z := r2.(type) {
				case *ssa.DebugRef:
				case *ssa.Store:
					if z.Addr != ssa.Value(y) || val != nil || !Dominates(z, before) {
						return nil
					}
					val = z.Val
				default:
					return nil
				}
			}
			switch val.(type) {
			case *ssa.Function, *ssa.MakeClosure:
				elems[k] = val
			default:
				return nil
			}
		default:
			return nil
		}
	}
	for _, e := range elems {
		if e == nil {
			return nil
		}
	}
	return elems
}

// arrayLenY: the length of the array an alloc of type *[n]T holds (-1: not an array).
func arrayLenY(a *ssa.Alloc) int {
	pt, ok := a.Type().Underlying().(*types.Pointer)
	if !ok {
		return -1
	}
	at, ok := pt.Elem().Underlying().(*types.Array)
	if !ok {
		return -1
	}
	return int(at.Len())
}

// ElementOfSlice: v is the value read from an element of a slice (a load of &s[i]); returns s, else nil.
func ElementOfSlice(v ssa.Value) ssa.Value {
	ld, ok := v.(*ssa.UnOp)
	if !ok || ld.Op != token.MUL {
		return nil
	}
	ia, ok := ld.X.(*ssa.IndexAddr)
	if !ok {
		return nil
	}
	if _, isSlice := ia.X.Type().Underlying().(*types.Slice); !isSlice {
		return nil
	}
	return ia.X
}
