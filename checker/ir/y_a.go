package ir

// Mark records on the valuation of one path that the path has passed a point of interest (to be called from the Target
// callback of a PathQuery when it is shown that point). The mark travels with the path like a decided condition - it
// is part of the state identity, and it is never forgotten - so a later arrival can ask "did THIS path pass the point",
// where a dominance test would need one point that lies on all paths. Nothing else reads it: the pruning of branches is
// unaffected.
func (v *Valuation) Mark(name string) { v.known["mark:"+name] = true }

// Unmark withdraws a mark.
func (v *Valuation) Unmark(name string) { delete(v.known, "mark:"+name) }

// Marked reports whether this path passed a point at which Mark(name) was called.
func (v *Valuation) Marked(name string) bool { return v.known["mark:"+name] }
