package ir

import (
	"golang.org/x/tools/go/ssa"
)

// Selected resolves phi nodes per path: for a phi whose block the path entered, the operand chosen by the incoming
// edge of the path is returned (repeatedly, for chains of phis). A value that is no phi, or a phi the path has not
// bound (or whose bound operand cannot be identified any more), is returned unchanged - the caller then has to treat
// it as "any of its operands".
func (v *Valuation) Selected(x ssa.Value) ssa.Value {
	for i := 0; i < 8 && x != nil; i++ {
		phi, ok := x.(*ssa.Phi)
		if !ok {
			return x
		}
		a, has := v.alias[phi]
		if !has {
			return x
		}
		var pick ssa.Value
		for _, e := range phi.Edges {
			t := v.term(e, 0)
			if t.key == a.key && t.neg == a.neg {
				if pick == nil {
					pick = e
				}
			}
		}
		if pick == nil || pick == x {
			return x
		}
		x = pick
	}
	return x
}

// Assume returns a copy of the valuation that additionally knows the boolean x to have the given truth (used to ask
// "what does the path know when this function returns true"). Phi nodes are resolved per path as usual.
func (v *Valuation) Assume(x ssa.Value, truth bool) *Valuation {
	n := v.clone()
	t := v.term(x, 0)
	if t.key == "true" {
		return n
	}
	n.known[t.key] = truth != t.neg
	n.deps[t.key] = t.deps
	return n
}
