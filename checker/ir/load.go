// Package ir is the front end of the checker: it loads the type-checked
// packages of the repository, builds go/ssa for them and offers the helpers
// (value resolution, access paths, guard facts, path queries, locksets) the
// rules are written with.
package ir

import (
	"fmt"
	"go/ast"
	"go/token"
	"go/types"
	"os"
	"sort"
	"strings"

	"golang.org/x/tools/go/packages"
	"golang.org/x/tools/go/ssa"
	"golang.org/x/tools/go/ssa/ssautil"
)

// Module is the import path prefix of the repository under analysis.
const Module = "github.com/acquirecloud/golibs"

// Config describes one load of the repository.
type Config struct {
	Dir      string            // repository root
	Patterns []string          // package patterns relative to Dir ("./kvs/inmem")
	GOOS     string            // optional
	GOARCH   string            // optional
	Overlay  map[string][]byte // absolute file name -> replacement content
}

// Prog is a loaded program.
type Prog struct {
	Cfg      Config
	Fset     *token.FileSet
	Pkgs     []*packages.Package
	SSA      *ssa.Program
	SrcFuncs []*ssa.Function // every source function of the initial packages, anonymous ones included
	byPath   map[string]*packages.Package
	ssaPkg   map[string]*ssa.Package
	closures map[*ssa.Function]*ssa.MakeClosure
}

// Load loads, type-checks and builds SSA for cfg.Patterns. Any load or type
// error is returned as an error: the rules never see a partial program.
func Load(cfg Config) (*Prog, error) {
	env := append(os.Environ(),
		"GOFLAGS=-mod=mod", "GOPROXY=off", "GOSUMDB=off", "GOTOOLCHAIN=local", "GOWORK=off", "CGO_ENABLED=0")
	if cfg.GOOS != "" {
		env = append(env, "GOOS="+cfg.GOOS)
	}
	if cfg.GOARCH != "" {
		env = append(env, "GOARCH="+cfg.GOARCH)
	}
	pc := &packages.Config{
		Mode: packages.NeedName | packages.NeedFiles | packages.NeedCompiledGoFiles | packages.NeedImports |
			packages.NeedTypes | packages.NeedSyntax | packages.NeedTypesInfo | packages.NeedTypesSizes | packages.NeedModule,
		Dir:     cfg.Dir,
		Env:     env,
		Tests:   false,
		Overlay: cfg.Overlay,
	}
	pkgs, err := packages.Load(pc, cfg.Patterns...)
	if err != nil {
		return nil, fmt.Errorf("load: %w", err)
	}
	if len(pkgs) == 0 {
		return nil, fmt.Errorf("load: no packages matched %v", cfg.Patterns)
	}
	var errs []string
	packages.Visit(pkgs, nil, func(p *packages.Package) {
		for _, e := range p.Errors {
			errs = append(errs, e.Error())
		}
	})
	if len(errs) > 0 {
		sort.Strings(errs)
		if len(errs) > 8 {
			errs = errs[:8]
		}
		return nil, fmt.Errorf("load: package errors: %s", strings.Join(errs, "; "))
	}
	for _, p := range pkgs {
		if p.Types == nil || p.TypesInfo == nil || len(p.Syntax) == 0 {
			return nil, fmt.Errorf("load: package %s has no syntax/types", p.PkgPath)
		}
	}
	sort.Slice(pkgs, func(i, j int) bool { return pkgs[i].PkgPath < pkgs[j].PkgPath })
	prog, spkgs := ssautil.Packages(pkgs, ssa.BuilderMode(0))
	prog.Build()
	p := &Prog{Cfg: cfg, Fset: pkgs[0].Fset, Pkgs: pkgs, SSA: prog,
		byPath: map[string]*packages.Package{}, ssaPkg: map[string]*ssa.Package{},
		closures: map[*ssa.Function]*ssa.MakeClosure{}}
	for i, pk := range pkgs {
		p.byPath[pk.PkgPath] = pk
		if spkgs[i] == nil {
			return nil, fmt.Errorf("load: no SSA for %s", pk.PkgPath)
		}
		p.ssaPkg[pk.PkgPath] = spkgs[i]
	}
	// enumerate source functions from the syntax (ssautil.AllFunctions misses methods of generic types)
	for _, pk := range pkgs {
		for _, f := range pk.Syntax {
			for _, d := range f.Decls {
				fd, ok := d.(*ast.FuncDecl)
				if !ok || fd.Body == nil {
					continue
				}
				obj, _ := pk.TypesInfo.Defs[fd.Name].(*types.Func)
				if obj == nil {
					continue
				}
				fn := prog.FuncValue(obj)
				if fn == nil {
					if fd.Name.Name == "_" {
						continue
					}
					return nil, fmt.Errorf("load: no SSA function for %s", obj.FullName())
				}
				p.addFunc(fn)
			}
		}
		// package initialiser (holds the initialisers of package-level variables)
		if init := p.ssaPkg[pk.PkgPath].Func("init"); init != nil {
			p.addFunc(init)
		}
	}
	return p, nil
}

func (p *Prog) addFunc(fn *ssa.Function) {
	p.SrcFuncs = append(p.SrcFuncs, fn)
	for _, b := range fn.Blocks {
		for _, in := range b.Instrs {
			if mc, ok := in.(*ssa.MakeClosure); ok {
				if af, ok := mc.Fn.(*ssa.Function); ok {
					p.closures[af] = mc
				}
			}
		}
	}
	for _, af := range fn.AnonFuncs {
		p.addFunc(af)
	}
}

// Pkg returns the loaded package with the import path Module+"/"+rel, or nil.
func (p *Prog) Pkg(rel string) *packages.Package {
	return p.byPath[Module+"/"+rel]
}

// SSAPkg returns the SSA package for Module+"/"+rel, or nil.
func (p *Prog) SSAPkg(rel string) *ssa.Package {
	return p.ssaPkg[Module+"/"+rel]
}

// HasPkg reports whether the repository package rel was loaded with syntax.
func (p *Prog) HasPkg(rel string) bool { return p.byPath[Module+"/"+rel] != nil }

// FuncsOf returns the source functions (methods and closures included) of the package rel.
func (p *Prog) FuncsOf(rel string) []*ssa.Function {
	var res []*ssa.Function
	sp := p.SSAPkg(rel)
	for _, f := range p.SrcFuncs {
		if f.Pkg == sp || (f.Pkg == nil && f.Parent() != nil && rootFn(f).Pkg == sp) {
			res = append(res, f)
		}
	}
	return res
}

func rootFn(f *ssa.Function) *ssa.Function {
	for f.Parent() != nil {
		f = f.Parent()
	}
	return f
}

// Func returns the package-level function rel.name, or nil.
func (p *Prog) Func(rel, name string) *ssa.Function {
	sp := p.SSAPkg(rel)
	if sp == nil {
		return nil
	}
	return sp.Func(name)
}

// MethodOf returns the source method with the given name declared on the named type t
// (pointer or value receiver), or nil.
func (p *Prog) MethodOf(t *types.Named, name string) *ssa.Function {
	t = t.Origin()
	for i := 0; i < t.NumMethods(); i++ {
		m := t.Method(i)
		if m.Name() == name {
			return p.SSA.FuncValue(m)
		}
	}
	return nil
}

// MethodsOf returns all source methods declared on the named type t.
func (p *Prog) MethodsOf(t *types.Named) []*ssa.Function {
	t = t.Origin()
	var res []*ssa.Function
	for i := 0; i < t.NumMethods(); i++ {
		if fn := p.SSA.FuncValue(t.Method(i)); fn != nil {
			res = append(res, fn)
		}
	}
	return res
}

// NamedTypes returns the named (non-alias) types declared at package level in rel, sorted by name.
func (p *Prog) NamedTypes(rel string) []*types.Named {
	pk := p.Pkg(rel)
	if pk == nil {
		return nil
	}
	var res []*types.Named
	sc := pk.Types.Scope()
	for _, n := range sc.Names() {
		if tn, ok := sc.Lookup(n).(*types.TypeName); ok && !tn.IsAlias() {
			if nt, ok := tn.Type().(*types.Named); ok {
				res = append(res, nt)
			}
		}
	}
	return res
}

// LookupType returns the named type rel.name (exported API anchor), or nil.
func (p *Prog) LookupType(rel, name string) *types.Named {
	pk := p.Pkg(rel)
	if pk == nil {
		return nil
	}
	if tn, ok := pk.Types.Scope().Lookup(name).(*types.TypeName); ok {
		if nt, ok := tn.Type().(*types.Named); ok {
			return nt
		}
	}
	return nil
}

// LookupTypeAny finds a named type by full import path (also in dependencies).
func (p *Prog) LookupTypeAny(path, name string) *types.Named {
	var res *types.Named
	packages.Visit(p.Pkgs, func(pk *packages.Package) bool {
		if res != nil {
			return false
		}
		if pk.PkgPath == path && pk.Types != nil {
			if tn, ok := pk.Types.Scope().Lookup(name).(*types.TypeName); ok {
				if nt, ok := tn.Type().(*types.Named); ok {
					res = nt
				}
			}
		}
		return true
	}, nil)
	return res
}

// Implementers returns the named types of package rel whose pointer (or value) method set implements iface.
func (p *Prog) Implementers(rel string, iface *types.Interface) []*types.Named {
	var res []*types.Named
	for _, nt := range p.NamedTypes(rel) {
		if _, isI := nt.Underlying().(*types.Interface); isI {
			continue
		}
		if nt.TypeParams().Len() > 0 {
			continue
		}
		if types.Implements(nt, iface) || types.Implements(types.NewPointer(nt), iface) {
			res = append(res, nt)
		}
	}
	return res
}

// Pos renders a position as repo-relative file:line.
func (p *Prog) Pos(pos token.Pos) string {
	if !pos.IsValid() {
		return "-"
	}
	ps := p.Fset.Position(pos)
	fn := ps.Filename
	if strings.HasPrefix(fn, p.Cfg.Dir+"/") {
		fn = fn[len(p.Cfg.Dir)+1:]
	}
	return fmt.Sprintf("%s:%d", fn, ps.Line)
}

// InstrPos returns the best position available for an instruction (falling back to the
// nearest positioned instruction of its block, then to the function).
func (p *Prog) InstrPos(in ssa.Instruction) string {
	if in == nil {
		return "-"
	}
	if in.Pos().IsValid() {
		return p.Pos(in.Pos())
	}
	b := in.Block()
	if b != nil {
		idx := -1
		for i, x := range b.Instrs {
			if x == in {
				idx = i
			}
		}
		for d := 1; d < len(b.Instrs); d++ {
			for _, j := range []int{idx - d, idx + d} {
				if j >= 0 && j < len(b.Instrs) && b.Instrs[j].Pos().IsValid() {
					return p.Pos(b.Instrs[j].Pos())
				}
			}
		}
	}
	if in.Parent() != nil {
		return p.Pos(in.Parent().Pos())
	}
	return "-"
}

// FnName is a stable, readable name of a function: "(*T).M", "F", "(*T).M$1".
func FnName(fn *ssa.Function) string {
	if fn == nil {
		return "<nil>"
	}
	var from *types.Package
	if r := rootFn(fn); r.Pkg != nil {
		from = r.Pkg.Pkg
	}
	s := fn.RelString(from)
	// drop type parameter lists from generic receivers: (*Map[K,V]).Add -> (*Map).Add
	for {
		i := strings.Index(s, "[")
		if i < 0 {
			break
		}
		depth := 0
		j := i
		for ; j < len(s); j++ {
			if s[j] == '[' {
				depth++
			} else if s[j] == ']' {
				depth--
				if depth == 0 {
					break
				}
			}
		}
		if j >= len(s) {
			break
		}
		s = s[:i] + s[j+1:]
	}
	return s
}
