package ir

import (
	"go/constant"
	"go/token"

	"golang.org/x/tools/go/ssa"
)

// ElemFact: for every element of Slice, Test (a comparison on a value read from that element) had the outcome Outcome.
type ElemFact struct {
	Slice   ssa.Value
	Test    *ssa.BinOp
	Outcome bool
	Elem    *ssa.IndexAddr // the element address inside the loop (Test reads through it)
}

// UniversalFacts recognises the "any/all" pre-pass: a boolean that is merged from constants, where the value `truth` is
// only produced by running a range loop over a slice to its end, and where every iteration that goes round passes one
// outcome of a test on the element:
//
//	flag := false; for i := range s { if s[i].f != nil { flag = true; break } }      flag == false  =>  all s[i].f == nil
//
// It returns what flag == truth says about every element. Nothing is assumed about the loop but its shape: the index is
// the range index of the loop (so no element is skipped), the only way to the merge with the constant `truth` is the
// exhausted loop, and the back edge cannot be reached without passing the stated outcome of the test.
func UniversalFacts(flag ssa.Value, truth bool) []ElemFact {
	p, ok := flag.(*ssa.Phi)
	if !ok {
		return nil
	}
	var header *ssa.BasicBlock
	for j, e := range p.Edges {
		c, isC := e.(*ssa.Const)
		if !isC || c.Value == nil || c.Value.Kind() != constant.Bool {
			return nil
		}
		if constant.BoolVal(c.Value) != truth {
			continue
		}
		// walk back over blocks that only jump and have one predecessor
		b := p.Block().Preds[j]
		for len(b.Preds) == 1 && len(b.Succs) == 1 && onlyJumpBlock(b) {
			if isRangeHeader(b.Preds[0]) && b.Preds[0].Succs[1] == b {
				break
			}
			b = b.Preds[0]
		}
		if len(b.Preds) != 1 || !isRangeHeader(b.Preds[0]) || b.Preds[0].Succs[1] != b {
			return nil
		}
		// nothing but jumps between the loop's exit and the merge (no further stores to look at: the flag is a phi)
		if header != nil && header != b.Preds[0] {
			return nil
		}
		header = b.Preds[0]
	}
	if header == nil {
		return nil
	}
	iff := header.Instrs[len(header.Instrs)-1].(*ssa.If)
	cmp := iff.Cond.(*ssa.BinOp)
	idx := cmp.X
	lenCall, _ := cmp.Y.(*ssa.Call)
	if lenCall == nil {
		return nil
	}
	slice := lenCall.Call.Args[0]
	body := header.Succs[0]
	fn := header.Parent()
	// blocks of the loop: reachable from body without passing the header, and reaching the header
	inLoop := map[*ssa.BasicBlock]bool{}
	var dfs func(b *ssa.BasicBlock)
	dfs = func(b *ssa.BasicBlock) {
		if b == header || inLoop[b] {
			return
		}
		inLoop[b] = true
		for _, s := range b.Succs {
			dfs(s)
		}
	}
	dfs(body)
	var res []ElemFact
	for b := range inLoop {
		if !reaches(b, header) {
			continue
		}
		last, isIf := b.Instrs[len(b.Instrs)-1].(*ssa.If)
		if !isIf {
			continue
		}
		test, isBo := last.Cond.(*ssa.BinOp)
		if !isBo {
			continue
		}
		elem := elementRead(test, slice, idx)
		if elem == nil {
			continue
		}
		for si, outcome := range []bool{true, false} {
			edgeFrom, edgeTo := b, b.Succs[si]
			// with that edge removed the header cannot be reached again from the body
			w, err := (Query{Fn: fn, FromBlock: body,
				BlockEdge: func(from, to *ssa.BasicBlock) bool { return from == edgeFrom && to == edgeTo },
				Target:    func(in ssa.Instruction) bool { return in == header.Instrs[0] }}).Find()
			if err == nil && w == nil {
				res = append(res, ElemFact{Slice: slice, Test: test, Outcome: outcome, Elem: elem})
			}
		}
	}
	return res
}

func onlyJumpBlock(b *ssa.BasicBlock) bool {
	for _, in := range b.Instrs {
		switch in.(type) {
		case *ssa.Jump, *ssa.DebugRef:
		default:
			return false
		}
	}
	return true
}

// isRangeHeader: the header of go/ssa's range-over-slice loop: i = phi(-1, next); next = i+1; if next < len(s).
func isRangeHeader(h *ssa.BasicBlock) bool {
	if len(h.Succs) != 2 || len(h.Instrs) == 0 {
		return false
	}
	iff, ok := h.Instrs[len(h.Instrs)-1].(*ssa.If)
	if !ok {
		return false
	}
	cmp, ok := iff.Cond.(*ssa.BinOp)
	if !ok || cmp.Op != token.LSS {
		return false
	}
	next, ok := cmp.X.(*ssa.BinOp)
	if !ok || next.Op != token.ADD || next.Block() != h {
		return false
	}
	one, isC := ConstInt(next.Y)
	phi, isPhi := next.X.(*ssa.Phi)
	if !isC || one != 1 || !isPhi || phi.Block() != h || len(phi.Edges) != 2 {
		return false
	}
	okInit, okBack := false, false
	for _, e := range phi.Edges {
		if k, isK := ConstInt(e); isK && k == -1 {
			okInit = true
		}
		if e == ssa.Value(next) {
			okBack = true
		}
	}
	if !okInit || !okBack {
		return false
	}
	lc, ok := cmp.Y.(*ssa.Call)
	if !ok {
		return false
	}
	if b, isB := lc.Call.Value.(*ssa.Builtin); !isB || b.Name() != "len" || len(lc.Call.Args) != 1 {
		return false
	}
	// the length is taken before the loop (range semantics) - it is the length of the slice value itself
	return true
}

// elementRead: one operand of test is read from slice[idx] (a field of it, directly or through the local copy the range
// value is kept in); the other does not depend on the loop. Returns the element address.
func elementRead(test *ssa.BinOp, slice, idx ssa.Value) *ssa.IndexAddr {
	var find func(v ssa.Value, d int) *ssa.IndexAddr
	find = func(v ssa.Value, d int) *ssa.IndexAddr {
		if d > 6 || v == nil {
			return nil
		}
		switch x := v.(type) {
		case *ssa.IndexAddr:
			if x.X == slice && x.Index == idx {
				return x
			}
		case *ssa.UnOp:
			if x.Op == token.MUL {
				return find(x.X, d+1)
			}
		case *ssa.FieldAddr:
			return find(x.X, d+1)
		case *ssa.Field:
			return find(x.X, d+1)
		case *ssa.Alloc:
			// the local the range value is copied to: exactly one store, of the element
			if sts := storesTo(x); len(sts) == 1 {
				return find(sts[0].Val, d+1)
			}
		}
		return nil
	}
	for _, pair := range [][2]ssa.Value{{test.X, test.Y}, {test.Y, test.X}} {
		if _, isC := pair[1].(*ssa.Const); !isC {
			continue
		}
		if e := find(pair[0], 0); e != nil {
			return e
		}
	}
	return nil
}
