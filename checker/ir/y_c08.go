package ir

import (
	"errors"
	"fmt"
	"go/token"
	"sort"
	"strings"

	"golang.org/x/tools/go/ssa"
)

// ---------------------------------------------------------------------------
// SrcWalk: per-path provenance of copied values
//
// CopyRoots answers "from which values can v stem" for all paths at once. A relation between TWO values ("k and v were
// read from the same entry") is lost that way when each of them is assigned at several places: `for k, v, ok := next();
// ok; k, v, ok = next()` gives k and v two roots each, and only the path tells that they are taken from the same call.
// SrcWalk enumerates the paths of one function and keeps, per path, the root every relevant phi selected on its way
// in and the root every relevant local cell was last assigned as a whole. A root is the value a chain of copies starts
// from (a call result, a tuple extraction, a parameter ...). A call that is executed again on the path makes the roots
// taken from its earlier execution unknown (they belong to another dynamic instance). Nothing is executed and no value
// is computed: the state is a finite map from SSA names to SSA names, the enumeration is memoised on it and bounded.

// SrcState is what one path knows.
type SrcState struct {
	phi  map[*ssa.Phi]ssa.Value
	mem  map[*ssa.Alloc]ssa.Value
	Note map[string]ssa.Value
	w    *srcWalk
}

type srcWalk struct {
	phis  map[*ssa.Phi]bool
	cells map[*ssa.Alloc]bool
}

func (s *SrcState) clone() *SrcState {
	n := &SrcState{phi: make(map[*ssa.Phi]ssa.Value, len(s.phi)), mem: make(map[*ssa.Alloc]ssa.Value, len(s.mem)), Note: make(map[string]ssa.Value, len(s.Note)), w: s.w}
	for k, v := range s.phi {
		n.phi[k] = v
	}
	for k, v := range s.mem {
		n.mem[k] = v
	}
	for k, v := range s.Note {
		n.Note[k] = v
	}
	return n
}

func srcName(v ssa.Value) string {
	if v == nil {
		return "?"
	}
	return fmt.Sprintf("%s@%p", v.Name(), v)
}

func (s *SrcState) encode() string {
	var ks []string
	for k, v := range s.phi {
		ks = append(ks, "p:"+srcName(k)+"="+srcName(v))
	}
	for k, v := range s.mem {
		ks = append(ks, "m:"+srcName(k)+"="+srcName(v))
	}
	for k, v := range s.Note {
		ks = append(ks, "n:"+k+"="+srcName(v))
	}
	sort.Strings(ks)
	return strings.Join(ks, ";")
}

// wholeCell: a is a local whose address is used for nothing but whole stores, loads and loads of its fields (and is not
// captured): its content at a point of a path is what the last store on the path put there.
func wholeCell(a *ssa.Alloc) bool {
	refs := a.Referrers()
	if refs == nil {
		return false
	}
	for _, r := range *refs {
		switch x := r.(type) {
		case *ssa.DebugRef:
		case *ssa.Store:
			if x.Addr != ssa.Value(a) || x.Val == ssa.Value(a) {
				return false
			}
		case *ssa.UnOp:
			if x.Op != token.MUL {
				return false
			}
		case *ssa.FieldAddr:
			if !onlyLoaded(x) {
				return false
			}
		default:
			return false
		}
	}
	return true
}

func onlyLoaded(fa *ssa.FieldAddr) bool {
	refs := fa.Referrers()
	if refs == nil {
		return true
	}
	for _, r := range *refs {
		switch x := r.(type) {
		case *ssa.DebugRef:
		case *ssa.UnOp:
			if x.Op != token.MUL {
				return false
			}
		case *ssa.FieldAddr:
			if !onlyLoaded(x) {
				return false
			}
		default:
			return false
		}
	}
	return true
}

// Root returns the value v is a copy (or a field) of on this path, nil when the path does not determine it.
func (s *SrcState) Root(v ssa.Value) ssa.Value {
	for i := 0; i < 64 && v != nil; i++ {
		switch x := v.(type) {
		case *ssa.ChangeType:
			v = x.X
		case *ssa.ChangeInterface:
			v = x.X
		case *ssa.MakeInterface:
			v = x.X
		case *ssa.Field:
			v = x.X
		case *ssa.Phi:
			if !s.w.phis[x] {
				return nil
			}
			r, ok := s.phi[x]
			if !ok {
				return nil
			}
			return r
		case *ssa.UnOp:
			if x.Op != token.MUL {
				return v
			}
			addr := x.X
			for {
				fa, ok := addr.(*ssa.FieldAddr)
				if !ok {
					break
				}
				addr = fa.X
			}
			a, ok := addr.(*ssa.Alloc)
			if !ok {
				return v // a load through a pointer that is no local cell: opaque
			}
			if !s.w.cells[a] {
				return nil
			}
			r, has := s.mem[a]
			if !has {
				return nil
			}
			return r
		default:
			return v
		}
	}
	return v
}

// relevant collects the phis and whole cells the given values can be copies of.
func (w *srcWalk) collect(vals []ssa.Value) {
	seen := map[ssa.Value]bool{}
	var rec func(v ssa.Value, d int)
	rec = func(v ssa.Value, d int) {
		if v == nil || seen[v] || d > 64 {
			return
		}
		seen[v] = true
		switch x := v.(type) {
		case *ssa.ChangeType:
			rec(x.X, d+1)
		case *ssa.ChangeInterface:
			rec(x.X, d+1)
		case *ssa.MakeInterface:
			rec(x.X, d+1)
		case *ssa.Field:
			rec(x.X, d+1)
		case *ssa.FieldAddr:
			rec(x.X, d+1)
		case *ssa.Phi:
			w.phis[x] = true
			for _, e := range x.Edges {
				rec(e, d+1)
			}
		case *ssa.UnOp:
			if x.Op == token.MUL {
				rec(x.X, d+1)
			}
		case *ssa.Alloc:
			if wholeCell(x) {
				w.cells[x] = true
				for _, st := range storesTo(x) {
					rec(st.Val, d+1)
				}
			}
		}
	}
	for _, v := range vals {
		rec(v, 0)
	}
}

// ErrSrcBound is returned when the enumeration exceeds its state bound.
var ErrSrcBound = errors.New("provenance walk: state bound exceeded")

// SrcWalk enumerates the paths of fn from its entry. track lists the values whose provenance the visitor will ask for
// (the phis and cells they can be copies of are followed, nothing else is). visit is called for every instruction
// with the state before it; when it returns true the walk stops and reports the path (a witness of whatever the
// visitor was looking for). The result is (nil, nil) when no path made the visitor stop.
func SrcWalk(fn *ssa.Function, track []ssa.Value, visit func(in ssa.Instruction, st *SrcState) bool) (*Witness, error) {
	if fn == nil || len(fn.Blocks) == 0 {
		return nil, nil
	}
	w := &srcWalk{phis: map[*ssa.Phi]bool{}, cells: map[*ssa.Alloc]bool{}}
	w.collect(track)
	type item struct {
		blk   *ssa.BasicBlock
		st    *SrcState
		trail []int
	}
	st0 := &SrcState{phi: map[*ssa.Phi]ssa.Value{}, mem: map[*ssa.Alloc]ssa.Value{}, Note: map[string]ssa.Value{}, w: w}
	work := []item{{blk: fn.Blocks[0], st: st0, trail: []int{0}}}
	seen := map[string]bool{}
	states := 0
	// a call executed (again): what was taken from an earlier execution of it is another dynamic instance
	fromCall := func(root ssa.Value, c *ssa.Call) bool {
		if root == ssa.Value(c) {
			return true
		}
		ex, ok := root.(*ssa.Extract)
		return ok && ex.Tuple == ssa.Value(c)
	}
	for len(work) > 0 {
		it := work[len(work)-1]
		work = work[:len(work)-1]
		states++
		if states > 100000 {
			return nil, ErrSrcBound
		}
		st := it.st.clone()
		for _, in := range it.blk.Instrs {
			if _, isPhi := in.(*ssa.Phi); isPhi {
				continue // selected on entry
			}
			if visit(in, st) {
				return &Witness{Blocks: it.trail, End: in}, nil
			}
			switch x := in.(type) {
			case *ssa.Store:
				if a, ok := x.Addr.(*ssa.Alloc); ok && w.cells[a] {
					if r := st.Root(x.Val); r != nil {
						st.mem[a] = r
					} else {
						delete(st.mem, a)
					}
				}
			case *ssa.Call:
				for k, r := range st.phi {
					if fromCall(r, x) {
						delete(st.phi, k)
					}
				}
				for k, r := range st.mem {
					if fromCall(r, x) {
						delete(st.mem, k)
					}
				}
				for k, r := range st.Note {
					if fromCall(r, x) {
						delete(st.Note, k)
					}
				}
			}
		}
		for _, s := range it.blk.Succs {
			ns := st.clone()
			// phis select in parallel, with respect to the state at the end of the predecessor
			idx := -1
			for i, p := range s.Preds {
				if p == it.blk {
					idx = i
				}
			}
			for _, in := range s.Instrs {
				phi, isPhi := in.(*ssa.Phi)
				if !isPhi {
					break
				}
				if !w.phis[phi] || idx < 0 || idx >= len(phi.Edges) {
					continue
				}
				if r := st.Root(phi.Edges[idx]); r != nil {
					ns.phi[phi] = r
				} else {
					delete(ns.phi, phi)
				}
			}
			key := fmt.Sprintf("%d|%s", s.Index, ns.encode())
			if seen[key] {
				continue
			}
			seen[key] = true
			tr := append(append([]int{}, it.trail...), s.Index)
			if len(tr) > 64 {
				tr = tr[len(tr)-64:]
			}
			work = append(work, item{blk: s, st: ns, trail: tr})
		}
	}
	return nil, nil
}
