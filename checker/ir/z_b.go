package ir

import "golang.org/x/tools/go/ssa"

// IsRangeHeader reports whether h is the header of go/ssa's range-over-slice loop: i = phi(-1, next); next = i+1;
// if next < len(s) goto body else done.
func IsRangeHeader(h *ssa.BasicBlock) bool { return isRangeHeader(h) }

// BlockReaches reports whether block to can be reached from block from (from itself included).
func BlockReaches(from, to *ssa.BasicBlock) bool { return reaches(from, to) }
