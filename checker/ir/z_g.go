package ir

import "golang.org/x/tools/go/ssa"

// SameOnPath reports whether a and b denote the same value on this path: phi nodes are resolved to the operand the path
// selected, loads of tracked local cells to what the path stored there. (Two different SSA values the path cannot
// identify are "not the same" - the caller has to treat that as "unknown", never as "different values".)
func (v *Valuation) SameOnPath(a, b ssa.Value) bool {
	if a == nil || b == nil {
		return false
	}
	ta, tb := v.term(a, 0), v.term(b, 0)
	return ta.key == tb.key && ta.neg == tb.neg
}
