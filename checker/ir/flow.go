package ir

import (
	"fmt"
	"go/constant"
	"go/token"
	"go/types"
	"sort"
	"strings"

	"golang.org/x/tools/go/ssa"
)

// ---------------------------------------------------------------------------
// path queries

// Query asks: is there an execution path (over the CFG, pruned by consistency of branch
// conditions) that starts right after From (or at the function entry when From is nil), reaches an
// instruction for which Target is true, and passes no instruction for which Block is true and no
// edge for which BlockEdge is true? A returned witness is such a path; nil means "no such path".
type Query struct {
	Fn        *ssa.Function
	From      ssa.Instruction                     // start after this instruction; nil = entry
	FromBlock *ssa.BasicBlock                     // alternative: start at the head of this block
	Assume    []Fact                              // facts assumed at the start
	Block     func(ssa.Instruction) bool          // path may not pass these (the "must pass" set)
	BlockEdge func(from, to *ssa.BasicBlock) bool // path may not take these edges
	// BlockFact: the path may not take an edge on which this fact becomes known. Unlike BlockEdge it sees the branch
	// condition with phi nodes resolved by the path: for "if a && b" (cond = phi[false, b]) arriving from the block that
	// evaluated b, the fact is about b.
	BlockFact func(f Fact) bool
	Target    func(ssa.Instruction) bool          // where the path must arrive
	MaxStates int
	// TrackConsts makes the search carry the values of integer/boolean SSA values that are constant along the
	// path (phi operands selected by the incoming edge, arithmetic and comparisons on known values) and prune
	// branches whose condition is known: path-sensitive constant propagation, not execution.
	TrackConsts bool
}

// Witness is a counterexample path: the sequence of blocks and the arriving instruction.
type Witness struct {
	Blocks []int
	End    ssa.Instruction
}

func (w *Witness) String(p *Prog) string {
	var bs []string
	blocks := w.Blocks
	if len(blocks) > 14 {
		blocks = blocks[len(blocks)-14:]
		bs = append(bs, "...")
	}
	for _, b := range blocks {
		bs = append(bs, fmt.Sprint(b))
	}
	return fmt.Sprintf("blocks %s -> %s (%s)", strings.Join(bs, ">"), p.InstrPos(w.End), instrStr(w.End))
}

func instrStr(in ssa.Instruction) string {
	if v, ok := in.(ssa.Value); ok {
		return v.Name() + " = " + in.String()
	}
	return in.String()
}

// ErrUndecided is returned when the state bound is exceeded.
var ErrUndecided = fmt.Errorf("path query exceeded its state bound")

type pstate struct {
	blk    int
	facts  string
	consts string
}

// Find runs the query. It returns (witness, nil) when a path exists, (nil, nil) when none exists
// and (nil, ErrUndecided) when the bound was hit.
func (q Query) Find() (*Witness, error) {
	max := q.MaxStates
	if max == 0 {
		max = 200000
	}
	fn := q.Fn
	if len(fn.Blocks) == 0 {
		return nil, nil
	}
	// blocks in which each condition value is (re)defined
	type item struct {
		blk    *ssa.BasicBlock
		start  int // instruction index to start scanning at
		facts  map[ssa.Value]bool
		trail  []int
		consts map[ssa.Value]constant.Value
		prev   *ssa.BasicBlock
	}
	encode := func(m map[ssa.Value]bool) string {
		if len(m) == 0 {
			return ""
		}
		var ks []string
		for k, v := range m {
			ks = append(ks, fmt.Sprintf("%s=%t", k.Name(), v))
		}
		sort.Strings(ks)
		return strings.Join(ks, ",")
	}
	init := map[ssa.Value]bool{}
	for _, f := range q.Assume {
		f = f.StripNot()
		init[f.Cond] = f.True
	}
	var start item
	switch {
	case q.From != nil:
		b := q.From.Block()
		idx := -1
		for i, in := range b.Instrs {
			if in == q.From {
				idx = i
			}
		}
		// facts known at From's block hold at the start
		for _, f := range Facts(b) {
			f = f.StripNot()
			if _, dup := init[f.Cond]; !dup {
				init[f.Cond] = f.True
			}
		}
		start = item{blk: b, start: idx + 1, facts: init, trail: []int{b.Index}}
	case q.FromBlock != nil:
		for _, f := range Facts(q.FromBlock) {
			f = f.StripNot()
			if _, dup := init[f.Cond]; !dup {
				init[f.Cond] = f.True
			}
		}
		start = item{blk: q.FromBlock, facts: init, trail: []int{q.FromBlock.Index}}
	default:
		start = item{blk: fn.Blocks[0], facts: init, trail: []int{0}}
	}
	seen := map[pstate]bool{}
	work := []item{start}
	states := 0
	for len(work) > 0 {
		it := work[len(work)-1]
		work = work[:len(work)-1]
		states++
		if states > max {
			return nil, ErrUndecided
		}
		blocked := false
		if q.TrackConsts {
			it.consts = evalBlockConsts(it.blk, it.prev, it.consts, it.start)
		}
		for i := it.start; i < len(it.blk.Instrs); i++ {
			in := it.blk.Instrs[i]
			if q.Target != nil && q.Target(in) {
				return &Witness{Blocks: it.trail, End: in}, nil
			}
			if q.Block != nil && q.Block(in) {
				blocked = true
				break
			}
		}
		if blocked {
			continue
		}
		for _, s := range it.blk.Succs {
			if q.BlockEdge != nil && q.BlockEdge(it.blk, s) {
				continue
			}
			if rf := resolvedEdgeFact(it.prev, it.blk, s); rf != nil {
				if c, isC := rf.Cond.(*ssa.Const); isC && c.Value != nil && c.Value.Kind() == constant.Bool {
					if constant.BoolVal(c.Value) != rf.True {
						continue // "if a && b" with a false on this path: the branch is decided
					}
				} else if q.BlockFact != nil {
					blocked := q.BlockFact(*rf)
					if !blocked {
						for _, x := range shortCircuitFacts(*rf, 0) {
							if q.BlockFact(x) {
								blocked = true
								break
							}
						}
					}
					if blocked {
						continue
					}
				}
			}
			nf := it.facts
			if q.TrackConsts {
				if ef := EdgeFact(it.blk, s); ef != nil {
					f := ef.StripNot()
					if cv, ok := it.consts[f.Cond]; ok && cv.Kind() == constant.Bool && constant.BoolVal(cv) != f.True {
						continue // the branch condition is known on this path
					}
				}
			}
			if ef := EdgeFact(it.blk, s); ef != nil {
				f := ef.StripNot()
				if known, ok := it.facts[f.Cond]; ok {
					if known != f.True {
						continue // contradicts an earlier branch on the same SSA value
					}
				} else {
					if contradictsConst(f) {
						continue
					}
					nf = copyFacts(it.facts)
					nf[f.Cond] = f.True
				}
			}
			// entering s re-executes the definitions inside s: forget facts about values defined there
			nf = dropDefinedIn(nf, s, it.facts)
			st := pstate{s.Index, encode(nf), encodeConsts(it.consts, it.blk, s)}
			if seen[st] {
				continue
			}
			seen[st] = true
			tr := append(append([]int{}, it.trail...), s.Index)
			if len(tr) > 64 {
				tr = tr[len(tr)-64:]
			}
			work = append(work, item{blk: s, facts: nf, trail: tr, consts: it.consts, prev: it.blk})
		}
	}
	return nil, nil
}

// evalBlockConsts returns the constant environment after the instructions of b (from index `from`), entered
// from prev with environment env.
func evalBlockConsts(b, prev *ssa.BasicBlock, env map[ssa.Value]constant.Value, from int) map[ssa.Value]constant.Value {
	out := make(map[ssa.Value]constant.Value, len(env)+4)
	for k, v := range env {
		out[k] = v
	}
	val := func(v ssa.Value) constant.Value {
		if c, ok := v.(*ssa.Const); ok {
			if c.Value != nil && (c.Value.Kind() == constant.Int || c.Value.Kind() == constant.Bool) {
				return c.Value
			}
			return nil
		}
		return out[v]
	}
	for i, in := range b.Instrs {
		if i < from {
			continue
		}
		switch x := in.(type) {
		case *ssa.Phi:
			delete(out, x)
			if prev != nil {
				for j, p := range b.Preds {
					if p == prev {
						// phis are evaluated simultaneously on the values of the previous block: use env, not out
						var cv constant.Value
						if c, ok := x.Edges[j].(*ssa.Const); ok {
							if c.Value != nil && (c.Value.Kind() == constant.Int || c.Value.Kind() == constant.Bool) {
								cv = c.Value
							}
						} else {
							cv = env[x.Edges[j]]
						}
						if cv != nil {
							out[x] = cv
						}
					}
				}
			}
		case *ssa.BinOp:
			delete(out, x)
			a, c := val(x.X), val(x.Y)
			if a == nil || c == nil {
				continue
			}
			switch x.Op {
			case token.ADD, token.SUB, token.MUL:
				if a.Kind() == constant.Int && c.Kind() == constant.Int {
					out[x] = constant.BinaryOp(a, x.Op, c)
				}
			case token.EQL, token.NEQ, token.LSS, token.LEQ, token.GTR, token.GEQ:
				if a.Kind() == c.Kind() {
					out[x] = constant.MakeBool(constant.Compare(a, x.Op, c))
				}
			}
		case *ssa.UnOp:
			delete(out, x)
			if x.Op == token.NOT {
				if a := val(x.X); a != nil && a.Kind() == constant.Bool {
					out[x] = constant.MakeBool(!constant.BoolVal(a))
				}
			}
		default:
			if v, ok := in.(ssa.Value); ok {
				delete(out, v)
			}
		}
	}
	return out
}

func encodeConsts(m map[ssa.Value]constant.Value, from, to *ssa.BasicBlock) string {
	if len(m) == 0 {
		return ""
	}
	var ks []string
	for k, v := range m {
		ks = append(ks, k.Name()+"="+v.ExactString())
	}
	sort.Strings(ks)
	return strings.Join(ks, ",")
}

func contradictsConst(f Fact) bool {
	if c, ok := f.Cond.(*ssa.Const); ok && c.Value != nil {
		if c.Value.String() == "true" && !f.True {
			return true
		}
		if c.Value.String() == "false" && f.True {
			return true
		}
	}
	return false
}

func copyFacts(m map[ssa.Value]bool) map[ssa.Value]bool {
	n := make(map[ssa.Value]bool, len(m)+1)
	for k, v := range m {
		n[k] = v
	}
	return n
}

func dropDefinedIn(m map[ssa.Value]bool, b *ssa.BasicBlock, orig map[ssa.Value]bool) map[ssa.Value]bool {
	var drop []ssa.Value
	for k := range m {
		if in, ok := k.(ssa.Instruction); ok && in.Block() == b {
			drop = append(drop, k)
			continue
		}
		// a condition computed from a value defined in b (e.g. cmp of a phi) is re-evaluated too when its
		// own definition is in b; conditions defined elsewhere keep their value
	}
	if len(drop) == 0 {
		return m
	}
	if sameMap(m, orig) {
		m = copyFacts(m)
	}
	for _, k := range drop {
		delete(m, k)
	}
	return m
}

func sameMap(a, b map[ssa.Value]bool) bool {
	if len(a) != len(b) {
		return false
	}
	// identity is enough for our use (copy-on-write)
	for k := range a {
		if _, ok := b[k]; !ok {
			return false
		}
	}
	return true
}

// IsReturn reports whether in is a Return outside the recover block.
func IsReturn(in ssa.Instruction) bool {
	r, ok := in.(*ssa.Return)
	if !ok {
		return false
	}
	return r.Block() != r.Parent().Recover
}

// IsExit reports whether in is a normal exit (a Return outside the recover block).
func IsExit(in ssa.Instruction) bool { return IsReturn(in) }

// ---------------------------------------------------------------------------
// effects and summaries

// Effects computes, for a predicate on instructions, the set of in-package functions that perform
// the effect on every path from entry to a normal exit ("must" summary), bottom-up to a fixed point.
type Effects struct {
	prog  *Prog
	base  func(ssa.Instruction) bool
	must  map[*ssa.Function]bool
	doing map[*ssa.Function]bool
	Depth int
}

// NewEffects creates a summary computer for a base effect predicate.
func NewEffects(p *Prog, base func(ssa.Instruction) bool) *Effects {
	return &Effects{prog: p, base: base, must: map[*ssa.Function]bool{}, doing: map[*ssa.Function]bool{}, Depth: 3}
}

// Is reports whether instruction in performs the effect, directly or by calling a function that
// must perform it. A deferred effect counts at the defer statement (every normal exit runs defers).
func (e *Effects) Is(in ssa.Instruction) bool { return e.is(in, 0) }

func (e *Effects) is(in ssa.Instruction, depth int) bool {
	if e.base(in) {
		return true
	}
	switch c := in.(type) {
	case *ssa.Call:
		if fn := StaticCallee(c); fn != nil && len(fn.Blocks) > 0 && depth < e.Depth {
			return e.mustFn(fn, depth+1)
		}
	case *ssa.Defer:
		if fn := StaticCallee(c); fn != nil && len(fn.Blocks) > 0 && depth < e.Depth {
			return e.mustFn(fn, depth+1)
		}
	}
	return false
}

// Must reports whether fn performs the effect on all paths to a normal exit.
func (e *Effects) Must(fn *ssa.Function) bool { return e.mustFn(fn, 0) }

func (e *Effects) mustFn(fn *ssa.Function, depth int) bool {
	if v, ok := e.must[fn]; ok {
		return v
	}
	if e.doing[fn] {
		return false
	}
	e.doing[fn] = true
	defer delete(e.doing, fn)
	w, err := Query{Fn: fn, Block: func(in ssa.Instruction) bool { return e.is(in, depth) }, Target: IsExit}.Find()
	res := w == nil && err == nil
	e.must[fn] = res
	return res
}

// MayReach reports whether some instruction satisfying pred is reachable in fn or (transitively,
// bounded) in the in-package functions it statically calls.
func MayReach(fn *ssa.Function, pred func(ssa.Instruction) bool, depth int) bool {
	seen := map[*ssa.Function]bool{}
	var rec func(f *ssa.Function, d int) bool
	rec = func(f *ssa.Function, d int) bool {
		if seen[f] || f == nil {
			return false
		}
		seen[f] = true
		found := false
		Instrs(f, func(in ssa.Instruction) {
			if found {
				return
			}
			if pred(in) {
				found = true
				return
			}
			if d > 0 {
				if c, ok := in.(ssa.CallInstruction); ok {
					if cal := StaticCallee(c); cal != nil && len(cal.Blocks) > 0 && rec(cal, d-1) {
						found = true
					}
				}
				if mc, ok := in.(*ssa.MakeClosure); ok {
					if rec(mc.Fn.(*ssa.Function), d-1) {
						found = true
					}
				}
			}
		})
		return found
	}
	return rec(fn, depth)
}

// ---------------------------------------------------------------------------
// exit classification

// ErrClass classifies an error-typed value at a program point.
type ErrClass int

const (
	ErrUnknown ErrClass = iota
	ErrNil
	ErrNonNil
)

func (c ErrClass) String() string { return [...]string{"unknown", "nil", "non-nil"}[c] }

// ClassifyErr decides whether error value v is provably nil / provably non-nil at block b.
func ClassifyErr(v ssa.Value, b *ssa.BasicBlock) ErrClass {
	return classifyErr(v, b, 0)
}

func classifyErr(v ssa.Value, b *ssa.BasicBlock, depth int) ErrClass {
	if depth > 8 || v == nil {
		return ErrUnknown
	}
	v = Resolve(v)
	if IsNilConst(v) {
		return ErrNil
	}
	// guard facts about v (or about a value v resolves from)
	for _, f := range Facts(b) {
		if c, ok := f.Cmp(); ok {
			x, y := Resolve(c.X), Resolve(c.Y)
			if (x == v && IsNilConst(y)) || (y == v && IsNilConst(x)) {
				if c.Op == token.NEQ {
					return ErrNonNil
				}
				if c.Op == token.EQL {
					return ErrNil
				}
			}
		}
	}
	switch x := v.(type) {
	case *ssa.Call:
		switch CalleeFullName(x) {
		case "fmt.Errorf", "errors.New":
			return ErrNonNil
		case "(context.Context).Err":
			// ctx.Err() taken in the ctx.Done() case of a select is non-nil
			for _, f := range Facts(b) {
				if c, ok := f.Cmp(); ok && c.Op == token.EQL {
					if ex, isEx := Resolve(c.X).(*ssa.Extract); isEx {
						if sel, isSel := ex.Tuple.(*ssa.Select); isSel && ex.Index == 0 {
							if k, isC := ConstInt(c.Y); isC && int(k) < len(sel.States) {
								if dc, isCall := Resolve(sel.States[k].Chan).(*ssa.Call); isCall && CalleeFullName(dc) == "(context.Context).Done" {
									return ErrNonNil
								}
							}
						}
					}
				}
			}
		}
	case *ssa.UnOp:
		if x.Op == token.MUL {
			if g, ok := x.X.(*ssa.Global); ok && isErrorType(g.Type().(*types.Pointer).Elem()) {
				return ErrNonNil // package-level error sentinels are never nil in this repository (checked by C19.R3)
			}
		}
	case *ssa.Phi:
		res := ErrClass(-1)
		for i, e := range x.Edges {
			pred := x.Block().Preds[i]
			c := classifyErrOnEdge(e, pred, x.Block(), depth+1)
			if res == -1 {
				res = c
			} else if res != c {
				return ErrUnknown
			}
		}
		if res >= 0 {
			return res
		}
	case *ssa.MakeInterface:
		return ErrNonNil
	}
	return ErrUnknown
}

func classifyErrOnEdge(v ssa.Value, from, to *ssa.BasicBlock, depth int) ErrClass {
	v = Resolve(v)
	if ef := EdgeFact(from, to); ef != nil {
		if c, ok := ef.Cmp(); ok {
			x, y := Resolve(c.X), Resolve(c.Y)
			if (x == v && IsNilConst(y)) || (y == v && IsNilConst(x)) {
				if c.Op == token.NEQ {
					return ErrNonNil
				}
				if c.Op == token.EQL {
					return ErrNil
				}
			}
		}
	}
	return classifyErr(v, from, depth)
}

func isErrorType(t types.Type) bool {
	return types.Identical(t, types.Universe.Lookup("error").Type())
}

// IsErrorType reports whether t is the predeclared error interface.
func IsErrorType(t types.Type) bool { return isErrorType(t) }

// ErrResultIndex returns the index of the (last) error result of fn, or -1.
func ErrResultIndex(fn *ssa.Function) int {
	rs := fn.Signature.Results()
	for i := rs.Len() - 1; i >= 0; i-- {
		if isErrorType(rs.At(i).Type()) {
			return i
		}
	}
	return -1
}

// ---------------------------------------------------------------------------
// locksets

// LockOps describes how lock and unlock calls are recognised: the mutex is identified by the
// access path of the receiver of (*sync.Mutex).Lock / Unlock (and RWMutex forms).
func lockOp(in ssa.Instruction) (path string, acquire, release bool) {
	c, ok := in.(ssa.CallInstruction)
	if !ok {
		return "", false, false
	}
	switch CalleeFullName(c) {
	case "(*sync.Mutex).Lock", "(*sync.RWMutex).Lock":
		return Path(Recv(c)), true, false
	case "(*sync.Mutex).Unlock", "(*sync.RWMutex).Unlock":
		return Path(Recv(c)), false, true
	case "(*sync.RWMutex).RLock":
		// a shared (read) acquisition is tracked under its own name: it does not permit writes
		return Path(Recv(c)) + ReadLockSuffix, true, false
	case "(*sync.RWMutex).RUnlock":
		return Path(Recv(c)) + ReadLockSuffix, false, true
	}
	return "", false, false
}

// ReadLockSuffix marks the lockset entry of a shared (RLock) acquisition.
const ReadLockSuffix = "#shared"

// LockOp is the exported form of lockOp.
func LockOp(in ssa.Instruction) (path string, acquire, release bool) { return lockOp(in) }

// Lockset is the result of the must-lockset analysis of one function: for every instruction the
// set of mutex paths that are held on every path reaching it (before the instruction executes).
type Lockset struct {
	Before map[ssa.Instruction]map[string]bool
	AtExit map[*ssa.Return]map[string]bool
}

// ComputeLockset runs the forward must-analysis (meet = intersection). entry is the set held on
// entry. A deferred Unlock does not release before the exit. callEffect, when non-nil, gives the
// lock delta of a call to an in-package helper (acquired, released paths in the callee's terms are
// not translated: helpers in this repository lock through the same receiver-rooted path).
func ComputeLockset(fn *ssa.Function, entry map[string]bool) *Lockset {
	ls := &Lockset{Before: map[ssa.Instruction]map[string]bool{}, AtExit: map[*ssa.Return]map[string]bool{}}
	if len(fn.Blocks) == 0 {
		return ls
	}
	in := make([]map[string]bool, len(fn.Blocks))
	out := make([]map[string]bool, len(fn.Blocks))
	in[0] = copySet(entry)
	changed := true
	transfer := func(b *ssa.BasicBlock, s map[string]bool, record bool) map[string]bool {
		cur := copySet(s)
		for _, instr := range b.Instrs {
			if record {
				ls.Before[instr] = copySet(cur)
			}
			if _, isDefer := instr.(*ssa.Defer); isDefer {
				continue
			}
			if _, isGo := instr.(*ssa.Go); isGo {
				continue
			}
			if p, acq, rel := lockOp(instr); acq {
				cur[p] = true
			} else if rel {
				delete(cur, p)
			}
			if r, ok := instr.(*ssa.Return); ok && record {
				ls.AtExit[r] = copySet(cur)
			}
		}
		return cur
	}
	for iter := 0; changed && iter < 1000; iter++ {
		changed = false
		for _, b := range fn.Blocks {
			if b.Index != 0 {
				var m map[string]bool
				first := true
				for _, p := range b.Preds {
					if out[p.Index] == nil {
						continue // not yet computed: optimistic (top)
					}
					if first {
						m = copySet(out[p.Index])
						first = false
					} else {
						m = intersect(m, out[p.Index])
					}
				}
				if first {
					continue
				}
				in[b.Index] = m
			}
			if in[b.Index] == nil {
				continue
			}
			o := transfer(b, in[b.Index], false)
			if out[b.Index] == nil || !equalSet(o, out[b.Index]) {
				out[b.Index] = o
				changed = true
			}
		}
	}
	for _, b := range fn.Blocks {
		if in[b.Index] != nil {
			transfer(b, in[b.Index], true)
		}
	}
	return ls
}

// Held reports whether the mutex path is in the must-lockset before in.
func (l *Lockset) Held(in ssa.Instruction, path string) bool {
	return l.Before[in][path]
}

// Any reports whether any mutex is held before in.
func (l *Lockset) Any(in ssa.Instruction) []string {
	var res []string
	for k := range l.Before[in] {
		res = append(res, k)
	}
	sort.Strings(res)
	return res
}

func copySet(m map[string]bool) map[string]bool {
	n := make(map[string]bool, len(m))
	for k, v := range m {
		if v {
			n[k] = true
		}
	}
	return n
}

func intersect(a, b map[string]bool) map[string]bool {
	n := map[string]bool{}
	for k := range a {
		if b[k] {
			n[k] = true
		}
	}
	return n
}

func equalSet(a, b map[string]bool) bool {
	if len(a) != len(b) {
		return false
	}
	for k := range a {
		if !b[k] {
			return false
		}
	}
	return true
}

// DeferredUnlocks returns the mutex paths released by deferred Unlock calls in fn.
func DeferredUnlocks(fn *ssa.Function) map[string]bool {
	res := map[string]bool{}
	Instrs(fn, func(in ssa.Instruction) {
		if d, ok := in.(*ssa.Defer); ok {
			if p, _, rel := lockOp(d); rel {
				res[p] = true
			}
		}
	})
	return res
}

// ---------------------------------------------------------------------------
// origins

// Origins returns the set of root values that can flow into v through phis, extracts of
// tuples are kept as they are; resolution (Resolve) is applied at every step.
func Origins(v ssa.Value) []ssa.Value {
	seen := map[ssa.Value]bool{}
	var res []ssa.Value
	var rec func(v ssa.Value)
	rec = func(v ssa.Value) {
		v = Resolve(v)
		if v == nil || seen[v] {
			return
		}
		seen[v] = true
		switch x := v.(type) {
		case *ssa.Phi:
			for _, e := range x.Edges {
				rec(e)
			}
		case *ssa.UnOp:
			if x.Op == token.MUL {
				if a, ok := x.X.(*ssa.Alloc); ok {
					sts := storesTo(a)
					if len(sts) > 0 {
						for _, s := range sts {
							rec(s.Val)
						}
						return
					}
				}
				if fv, ok := x.X.(*ssa.FreeVar); ok {
					if b := bindingOf(fv); b != nil {
						if a, ok := b.(*ssa.Alloc); ok {
							sts := storesTo(a)
							if len(sts) > 0 {
								for _, s := range sts {
									rec(s.Val)
								}
								return
							}
						}
					}
				}
			}
			res = append(res, v)
		default:
			res = append(res, v)
		}
	}
	rec(v)
	return res
}

// resolvedEdgeFact is EdgeFact with a phi condition of `from` replaced by the operand the path (arriving from prev)
// selects.
func resolvedEdgeFact(prev, from, to *ssa.BasicBlock) *Fact {
	ef := EdgeFact(from, to)
	if ef == nil {
		return nil
	}
	f := ef.StripNot()
	if phi, ok := f.Cond.(*ssa.Phi); ok && phi.Block() == from && prev != nil {
		for j, p := range from.Preds {
			if p == prev {
				return &Fact{phi.Edges[j], f.True}
			}
		}
	}
	return &f
}
