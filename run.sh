#!/bin/sh
# Usage: ./run.sh <property-id> <quick|thorough>     (cwd = /verif)
# Builds the checker if needed (from files on disk only) and runs one property check
# against the current working tree of /repo.
set -u
cd "$(dirname "$0")"
export GOFLAGS=-mod=mod GOPROXY=off GOSUMDB=off GOTOOLCHAIN=local GOWORK=off CGO_ENABLED=0
unset GOOS GOARCH
( cd checker && go build -o ../bin/verifcheck . ) || { echo "CHECK-ERROR: cannot build the checker" >&2; exit 2; }
exec ./bin/verifcheck check -prop "$1" -tier "${2:-quick}"
