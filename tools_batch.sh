#!/bin/bash
# tools_batch.sh <prop> <round>  : try both seeds of /tmp/wt-<prop>-<round>
P=$1; R=$2
for k in 1 2 3; do
  d=/tmp/wt-$P-$R/_out/$k
  [ -d $d ] || continue
  echo "=================== $P-$R$k"
  ./tools_try_seed.sh $d $P 2>&1 | grep "EXIT\|SUITE\|quick:\|CHECK-ERROR\|^--- FAIL\|violated\|DOES NOT" | cut -c1-380
done
