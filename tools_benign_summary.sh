#!/bin/bash
# tools_benign_summary.sh : run the benign corpus and print, per refactoring, which property checks are not silent
/verif/bin/verifcheck selftest 2>&1 > /tmp/selftest_all.txt
grep "  benign " /tmp/selftest_all.txt | python3 -c "
import sys,collections
per=collections.defaultdict(list)
for l in sys.stdin:
    f=l.split()
    idp=f[1]; out=f[2]
    bid,prop=idp.rsplit('/',1)
    per[bid].append((prop,out,' '.join(f[3:])[:150]))
ok=0
for b in sorted(per):
    bad=[x for x in per[b] if x[1]!='silent']
    if not bad: ok+=1
    else:
        print(b, ' '.join(p+':'+o for p,o,_ in bad))
        for p,o,d in bad[:2]: print('     ',p,d)
print('refactorings fully silent:',ok,'of',len(per))
"
grep "selftest:" /tmp/selftest_all.txt
grep -v " killed \| silent \| detected \|benign " /tmp/selftest_all.txt | head -20
