#!/usr/bin/env python3
# tools_evidence_summary.py : tallies the thorough-tier evidence files (mutants / seeded changes / refactorings per property)
import json, glob, collections
tot = {k: collections.Counter() for k in ('mutants', 'seeded_changes', 'benign_refactorings')}
bad = []
obl = 0
seen = {k: {} for k in tot}
for f in sorted(glob.glob('/verif/evidence/C??.json')):
    e = json.load(open(f)); c = e['coverage']
    obl += c.get('obligations', 0)
    for k in tot:
        for x in c.get(k) or []:
            o = x.get('outcome') or x.get('Outcome')
            i = x.get('id') or x.get('ID')
            tot[k][o] += 1
            base = i.split('/')[0]
            seen[k].setdefault(base, set()).add(o)
            if o not in ('killed', 'silent', 'detected', 'flagged'):
                bad.append((e['property_id'], k, i, o, (x.get('detail') or '')[:110]))
print('obligations (sum over properties):', obl)
for k in tot:
    print(k, dict(tot[k]), 'distinct entries:', len(seen[k]))
# benign per round: an entry is silent iff silent under every property that ran it
for tag in 'rstuvw':
    ids = [i for i in seen['benign_refactorings'] if '-' + tag in i]
    sil = [i for i in ids if seen['benign_refactorings'][i] == {'silent'}]
    print('benign round', tag, len(sil), 'of', len(ids), 'silent; not silent:', sorted(set(ids) - set(sil)))
for b in bad:
    print('NOT-OK', b)
