#!/usr/bin/env python3
# tools_keep_seed.py <seed-id> <property> <src-out-dir> <status> <caught-by> <needs...>
# status: caught | caught-after-strengthening | missed
import sys, os, shutil, json, glob, subprocess
sid, prop, src, status, caught = sys.argv[1:6]
needs = " ".join(sys.argv[6:])
dst = f"/verif/seeded/{sid}"
os.makedirs(dst, exist_ok=True)
for f in glob.glob(src + "/*"):
    b = os.path.basename(f)
    if os.path.isfile(f) and (b.endswith(".go") or b in ("patch.diff", "demo_path.txt", "notes.md")):
        shutil.copy(f, dst + "/" + (b + ".txt" if b.endswith(".go") else b))
head = subprocess.check_output(["git", "-C", "/repo", "rev-parse", "--short", "HEAD"]).decode().strip()
meta = {
    "id": sid, "breaks_property": prop, "origin": "independent sub-agent given only the property text and a scratch worktree",
    "needs_to_manifest": needs,
    "repo_head_when_verified": head,
    "verified_by_me": [
        "scratch worktree of /repo HEAD: demonstration on the unchanged tree = PASS",
        "git apply patch.diff: demonstration = FAIL",
        "full existing suite with the change (go test -vet=off -count=1 ./...) = PASS (timeout.TestBunch2 is flaky in the baseline)",
        f"VERIF_REPO=<scratch> bin/verifcheck check -prop {prop}",
    ],
    "check_result": status, "caught_by": caught,
    "note": "demonstration files are stored with a .txt suffix so that they are not compiled; demo_path.txt says where they go",
}
json.dump(meta, open(dst + "/meta.json", "w"), indent=1)
print("kept", dst)
