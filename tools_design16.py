#!/usr/bin/env python3
# tools_design16.py : (re)generates section 16 of DESIGN.md from notes/round_f_prose.md, notes/round_t_generalisations.md,
# notes/round_g_prose.md (optional) and the meta.json files of the kept seeds/refactorings
import json, glob, os, re
V = '/verif'
def table(rnd):
    rows = []
    for d in sorted(glob.glob(f'{V}/seeded/C??-{rnd}?')):
        m = json.load(open(d + '/meta.json'))
        t = ''
        n = d + '/notes.md'
        if os.path.exists(n):
            for l in open(n):
                if l.strip():
                    t = l.strip().lstrip('# ').strip(); break
        t = re.sub(r'^C\d\d-%s\d\s*' % rnd, '', t)
        t = re.sub(r'^\(([A-Za-z /,\-]+)\):\s*', lambda mo: '[' + mo.group(1).split()[0].strip(',').lower()[:4] + '] ', t)
        res = m['check_result']
        if m.get('note_scope'):
            when = 'outside the property as stated'
        else:
            when = {'caught': 'existing rule', 'caught-after-strengthening': 'after', 'missed': 'not caught', 'flagged-not-established': 'not established only'}[res]
        first = m.get('first_run_result', res)
        rows.append(f"| {m['id']} | {t[:175].replace('|','/')} | {m.get('caught_by','-')} | {when} |")
    return "| seed | what it does | reported by | when |\n|---|---|---|---|\n" + "\n".join(rows)
def counts(rnd):
    c = {'named': 0, 'first': 0, 'first_flag': 0, 'first_missed': 0, 'n': 0, 'left': []}
    for d in sorted(glob.glob(f'{V}/seeded/C??-{rnd}?')):
        m = json.load(open(d + '/meta.json'))
        c['n'] += 1
        res = m['check_result']; first = m.get('first_run_result', res)
        if first == 'caught': c['first'] += 1
        elif first == 'flagged-not-established': c['first_flag'] += 1
        else: c['first_missed'] += 1
        if res in ('caught', 'caught-after-strengthening'): c['named'] += 1
        else: c['left'].append((m['id'], res, m.get('note_scope', '')))
    return c
def benign(tag):
    n = 0; silent_first = 0
    for d in sorted(glob.glob(f'{V}/benign/C??-{tag}?')):
        m = json.load(open(d + '/meta.json')); n += 1
        if m.get('check_outcome') == 'silent': silent_first += 1
    return n, silent_first
s = open(f'{V}/notes/round_f_prose.md').read()
cf = counts('f')
s = s.replace('@CAUGHT@', str(cf['named'])).replace('@TABLE@', table('f'))
left = []
for (i, res, scope) in cf['left']:
    why = open(f'{V}/notes/left_{i}.txt').read().strip() if os.path.exists(f'{V}/notes/left_{i}.txt') else scope
    left.append(f"* **{i}** ({'outside the property' if scope else res}): {why}")
s = s.replace('@LEFT@', "\n".join(left))
s = s.replace('@FRULES@', open(f'{V}/notes/round_f_rules.md').read().strip())
s = s.replace('@BGEN@', open(f'{V}/notes/round_t_generalisations.md').read().strip())
for k in ('@BSILENT@', '@BLEFT@', '@NUMBERS@'):
    p = f'{V}/notes/ph_{k.strip("@")}.txt'
    s = s.replace(k, open(p).read().strip() if os.path.exists(p) else k)
g = f'{V}/notes/round_g_prose.md'
if os.path.exists(g):
    cg = counts('g')
    t = open(g).read()
    t = t.replace('@GTABLE@', table('g')).replace('@GN@', str(cg['n'])).replace('@GFIRST@', str(cg['first'])).replace('@GFLAG@', str(cg['first_flag'])).replace('@GMISSED@', str(cg['first_missed'])).replace('@GNAMED@', str(cg['named']))
    gl = []
    for (i, res, scope) in cg['left']:
        why = open(f'{V}/notes/left_{i}.txt').read().strip() if os.path.exists(f'{V}/notes/left_{i}.txt') else scope
        gl.append(f"* **{i}** ({'outside the property' if scope else res}): {why}")
    t = t.replace('@GRULES@', open(f'{V}/notes/round_g_rules.md').read().strip())
    t = t.replace('@GLEFT@', "\n".join(gl) if gl else '(none)')
    s = s.replace('### 16.7 Numbers', t + '\n### 16.7 Numbers')
u = f'{V}/notes/round_u_prose.md'
if os.path.exists(u):
    t = open(u).read()
    for k in ('USILENT', 'ULEFT', 'UGEN'):
        pth = f'{V}/notes/ph_{k}.txt'
        t = t.replace('@' + k + '@', open(pth).read().strip() if os.path.exists(pth) else '(pending)')
    s = s.replace('### 16.7 Numbers', t + '### 16.7 Numbers')
hh = f'{V}/notes/round_h_prose.md'
if os.path.exists(hh):
    ch = counts('h')
    t = open(hh).read()
    t = t.replace('@HTABLE@', table('h')).replace('@HN@', str(ch['n'])).replace('@HFIRST@', str(ch['first'])).replace('@HFLAG@', str(ch['first_flag'])).replace('@HMISSED@', str(ch['first_missed'])).replace('@HNAMED@', str(ch['named']))
    hl = []
    for (i, res, scope) in ch['left']:
        why = open(f'{V}/notes/left_{i}.txt').read().strip() if os.path.exists(f'{V}/notes/left_{i}.txt') else (scope or 'no rule written in the time box')
        hl.append(f"* **{i}** ({'outside the property' if scope else res}): {why}")
    t = t.replace('@HRULES@', open(f'{V}/notes/round_h_rules.md').read().strip())
    t = t.replace('@HLEFT@', "\n".join(hl) if hl else '(none)')
    s = s.replace('### 16.7 Numbers', t + '### 16.7 Numbers')
vv = f'{V}/notes/round_v_prose.md'
if os.path.exists(vv):
    t = open(vv).read()
    n, sf = benign('v')
    t = t.replace('@VFIRST@', str(sf)).replace('@VALARM@', str(n - sf))
    for k in ('VSILENT', 'VLEFT'):
        pth = f'{V}/notes/ph_{k}.txt'
        t = t.replace('@' + k + '@', open(pth).read().strip() if os.path.exists(pth) else '(pending)')
    s = s.replace('### 16.7 Numbers', t + '### 16.7 Numbers')
d = open(f'{V}/DESIGN.md').read()
i = d.find('\n## 16. ')
if i >= 0:
    d = d[:i]
d = d.rstrip('\n') + '\n\n' + s
open(f'{V}/DESIGN.md', 'w').write(d)
print('DESIGN.md section 16 written:', len(s), 'chars; round f', cf['n'], cf['named'], 'left', [x[0] for x in cf['left']])
