#!/usr/bin/env python3
# tools_mark_seed.py <seed-id> : re-run the seed's property check on a scratch tree with the patch; if a named obligation is violated now,
# record check_result=caught-after-strengthening and caught_by in meta.json (only for seeds recorded as missed / flagged-not-established)
import json, subprocess, sys, re, os
for sid in sys.argv[1:]:
    d = f"/verif/seeded/{sid}"
    meta = json.load(open(d + "/meta.json"))
    prop = meta["breaks_property"]
    out = subprocess.run(["/verif/tools_seed_vs.sh", d, prop], capture_output=True, text=True, env=dict(os.environ, CUT="300")).stdout
    vio = sorted(set(re.findall(r"^violated: (C\d\d\.[A-Z]+\d+)\|", out, re.M)))
    ne = re.findall(r"^not-established:", out, re.M)
    if vio:
        if meta["check_result"] in ("missed", "flagged-not-established"):
            meta["first_run_result"] = meta["check_result"]
            meta["check_result"] = "caught-after-strengthening"
        meta["caught_by"] = ",".join(vio)
        json.dump(meta, open(d + "/meta.json", "w"), indent=1)
        print(sid, "->", meta["check_result"], meta["caught_by"])
    else:
        print(sid, "STILL", "flagged-not-established" if ne else "missed")
