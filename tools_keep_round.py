#!/usr/bin/env python3
# tools_keep_round.py <round-letter> : verify every seed of a round in scratch worktrees and keep the confirmed ones
import subprocess, sys, os, re, glob
rnd = sys.argv[1]
after = set(sys.argv[2].split(',')) if len(sys.argv) > 2 else set()
props = os.environ.get("PROPS", "").split() or ["C%02d" % i for i in range(1, 21)]
for p in props:
    for k in (1, 2, 3):
        d = os.environ.get("SEED_DIR_PATTERN", "/tmp/wt-{p}-{rnd}").format(p=p, rnd=rnd) + f"/_out/{k}"
        if not os.path.isdir(d):
            continue
        sid = f"{p}-{rnd}{k}"
        out = subprocess.run(["./tools_try_seed.sh", d, p], capture_output=True, text=True, cwd="/verif").stdout
        un = re.search(r"DEMO-UNCHANGED-EXIT=(\d+)", out)
        ch = re.search(r"DEMO-CHANGED-EXIT=(\d+)", out)
        suite_fail = [l for l in out.split("\n") if l.startswith("--- FAIL") and "TestBunch" not in l and "TestCancelMany" not in l and "TestCall" not in l and "TestKvDistLock_Timeout" not in l and "ZZDemo" not in l]
        vio = re.findall(r"^violated: (C\d\d\.[A-Z]\d+)\|", out, re.M)
        ok_demo = un and ch and un.group(1) == "0" and ch.group(1) != "0"
        status = "missed"
        if not vio and re.search(r"^not-established:", out, re.M):
            status = "flagged-not-established"
        if vio:
            status = "caught-after-strengthening" if sid in after else "caught"
        notes = ""
        n = os.path.join(d, "notes.md")
        if os.path.exists(n):
            t = [l.strip() for l in open(n).read().split("\n") if l.strip() and not l.startswith("#")]
            notes = " ".join(t)[:420]
        print(sid, "demo-ok" if ok_demo else f"DEMO-NOT-CONFIRMED un={un and un.group(1)} ch={ch and ch.group(1)}", status, ",".join(sorted(set(vio))), "suite-extra-fails:", suite_fail)
        if ok_demo and not suite_fail:
            subprocess.run(["./tools_keep_seed.py", sid, p, d, status, ",".join(sorted(set(vio))) or "-", notes], cwd="/verif", capture_output=True)
