#!/bin/bash
# tools_try_seed.sh <seed-out-dir> <property>  : verify a seeded change in a fresh scratch worktree and run the check on it
# 1. demo on unchanged HEAD = PASS  2. demo with change = FAIL  3. full suite with change = PASS  4. our check on the changed tree
set -u
export GOFLAGS=-mod=mod GOPROXY=off GOSUMDB=off GOTOOLCHAIN=local
D=$1; P=$2
WT=/tmp/try-$$
git -C /repo worktree add -q --detach $WT HEAD || exit 3
cleanup() { git -C /repo worktree remove --force $WT; }
trap cleanup EXIT
cat $D/demo_path.txt
echo "---- placing demo files"
# demo files: every *_test.go / *.go in D except patch; placed per demo_path.txt (first path-like token ending in .go for each file name)
for f in $D/*.go; do
  [ -e "$f" ] || continue
  b=$(basename $f)
  dest=$(grep -o "[A-Za-z0-9_./-]*$b" $D/demo_path.txt | grep / | grep -v '^/tmp' | grep -v '^_out' | head -1)
  [ -z "$dest" ] && dest=$(grep -o "[A-Za-z0-9_./-]*/$b" $D/demo_path.txt | sed 's#^/tmp/wt-[A-Za-z0-9-]*/##' | head -1)
  echo "  $b -> $dest"
  mkdir -p $WT/$(dirname $dest); cp $f $WT/$dest
done
CMD=$(grep -o 'go test [^`]*' $D/demo_path.txt | head -1 | tr -d "'" | sed 's/[`)]*$//')
[ -z "$CMD" ] && CMD=$(grep -o 'go run [^`]*' $D/demo_path.txt | head -1)
echo "---- demo cmd: $CMD"
echo "---- 1. demo on unchanged tree (expect PASS)"
(cd $WT && timeout 600 $CMD > /tmp/try-$$.log 2>&1; echo "DEMO-UNCHANGED-EXIT=$?"; tail -3 /tmp/try-$$.log)
echo "---- 2. demo with change (expect FAIL)"
git -C $WT apply $D/patch.diff || { echo "PATCH DOES NOT APPLY"; exit 4; }
(cd $WT && timeout 600 $CMD > /tmp/try-$$.log 2>&1; echo "DEMO-CHANGED-EXIT=$?"; tail -6 /tmp/try-$$.log)
echo "---- 3. full suite with change (expect PASS, TestBunch2 flaky)"
# remove demo files for the suite run
for f in $D/*.go; do [ -e "$f" ] || continue; b=$(basename $f); find $WT -name $b -not -path '*/_out/*' -delete; done
(cd $WT && go build ./... && go test -vet=off -count=1 ./... > /tmp/try-$$.log 2>&1; grep -c '^ok' /tmp/try-$$.log | sed 's/^/SUITE-OK-PACKAGES=/'; grep '^--- FAIL\|^FAIL\|panic' /tmp/try-$$.log | head; rm -f /tmp/try-$$.log)
echo "---- 4. check $P on the changed tree"
VERIF_REPO=$WT VERIF_EVIDENCE_DIR=/tmp/try-ev-$$ /verif/bin/verifcheck check -prop $P 2>/dev/null | grep '^violated\|^not-established\|^KNOWN\|^C[0-9][0-9] ' | cut -c1-400 | head -16
echo "exit=$?"
rm -rf /tmp/try-ev-$$
