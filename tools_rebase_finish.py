#!/usr/bin/env python3
"""tools_rebase_finish.py <seed-id> <tmpdir> : after the conflict regions in <tmpdir>/merged/* were resolved by hand,
write the re-based patch (diff current -> merged) and record the re-base in meta.json."""
import json, os, subprocess, sys, shutil
sid, tmp = sys.argv[1], sys.argv[2]
d = f"/verif/seeded/{sid}"
meta = json.load(open(d + "/meta.json"))
head = subprocess.run(["git", "-C", "/repo", "rev-parse", "--short", "HEAD"], capture_output=True, text=True).stdout.strip()
newpatch = ""
for root, _, fs in os.walk(f"{tmp}/merged"):
    for fn in fs:
        p = os.path.join(root, fn)
        f = os.path.relpath(p, f"{tmp}/merged")
        txt = open(p).read()
        if "<<<<<<<" in txt or ">>>>>>>" in txt:
            sys.exit(f"unresolved conflict markers in {p}")
        dd = subprocess.run(["diff", "-u", "--label", f"a/{f}", "--label", f"b/{f}", f"/repo/{f}", p], capture_output=True, text=True)
        if dd.stdout:
            newpatch += f"diff --git a/{f} b/{f}\n" + dd.stdout
if not os.path.exists(d + "/patch.orig.diff"):
    shutil.copy(d + "/patch.diff", d + "/patch.orig.diff")
open(d + "/patch.diff", "w").write(newpatch)
meta["rebased_onto"] = head
meta["rebase_note"] = f"patch re-based onto {head} after fix: commits touched the same lines (three-way merge of file contents, the overlapping region merged by hand keeping both the seeded change and the repair); the original patch (against {meta['repo_head_when_verified']}) is kept as patch.orig.diff"
json.dump(meta, open(d + "/meta.json", "w"), indent=1)
shutil.rmtree(tmp, ignore_errors=True)
print("rebased", sid, "onto", head)
